#!/venv/bin/python
"""Summarise a VERIF_DUMP file: groups by (kind, exc, normalised message tail) and lists the feature values seen."""
import collections, json, re, sys
rows = [json.loads(l) for l in open(sys.argv[1])]
keyf = sys.argv[2].split(",") if len(sys.argv) > 2 else ["head"]
groups = collections.defaultdict(list)
for x in rows:
    r = x["r"]
    msg = r.get("msg") or ""
    msg = re.sub(r"^[^:]*: ", "", msg, count=1)
    msg = re.sub(r"torch\.Size\(\[[^\]]*\]\)|\([0-9, ]*\)|[0-9.]+e?[-+]?[0-9]*", "#", msg)[:110]
    groups[(r.get("kind"), r.get("exc"), msg)].append(x)
for g, xs in sorted(groups.items(), key=lambda kv: -len(kv[1])):
    feats = collections.Counter(tuple(str(x["r"]["feat"].get(k)) for k in keyf) for x in xs)
    print(f"{len(xs):6d} {g[0]} {g[1]} | {g[2]}")
    print("        ", dict(list(feats.most_common(12))))
