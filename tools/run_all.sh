#!/bin/sh
# runs every claimed check at the given tier (default quick) and prints one status line per property
cd "$(dirname "$0")/.." || exit 2
tier="${1:-quick}"
rc_all=0
for p in $(python3 -c "import json;print(' '.join(c['property_id'] for c in json.load(open('MANIFEST.json'))['checks']))"); do
  out=$(./check "$p" --tier "$tier" 2>&1); rc=$?
  echo "$p rc=$rc $(echo "$out" | grep -c '^KNOWN-FINDING') known-findings  $(echo "$out" | tail -1 | sed 's/.*new_violations/new_violations/' | cut -c1-80)"
  [ $rc -ne 0 ] && rc_all=1
done
exit $rc_all
