#!/bin/sh
# re-applies every stored seeded change to a fresh scratch worktree of /repo HEAD and runs the check of its property (quick tier)
# usage: tools/reseed_all.sh [pattern]   -> prints one line per seeded change
cd /verif || exit 2
for d in seeded/${1:-*}; do
  sid=$(basename $d)
  cid=$(echo $sid | cut -c1-3)
  out=$(tools/reseed.sh $sid $cid 2>&1 | grep "^check=\|does not apply\|^demo")
  echo "$sid: $(echo $out | tr '\n' ' ' | cut -c1-200)"
done
