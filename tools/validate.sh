#!/bin/sh
# validates MANIFEST.json and every evidence file against the schemas
cd "$(dirname "$0")/.." && python3-vt - <<'PY'
import json, glob, jsonschema, sys
m = json.load(open("MANIFEST.json")); jsonschema.validate(m, json.load(open("/root/.vp/MANIFEST.schema.json")))
es = json.load(open("/root/.vp/EVIDENCE.schema.json"))
bad = 0
for c in m["checks"]:
    try:
        jsonschema.validate(json.load(open(c["evidence_file"])), es)
    except Exception as e:
        bad += 1; print("EVIDENCE INVALID", c["evidence_file"], str(e)[:200])
print("manifest ok;", len(m["checks"]), "checks;", bad, "bad evidence")
sys.exit(1 if bad else 0)
PY
