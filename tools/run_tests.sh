#!/bin/sh
# runs the repository's own suite (guard off) on $1 (default /repo) and prints the summary line
cd "${1:-/repo}" && env -u LINEAR_OPERATOR_VERIF /venv/bin/python -m pytest -q -p no:cacheprovider --timeout=900 --continue-on-collection-errors --disable-warnings -x 2>&1 | tail -4
