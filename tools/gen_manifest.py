#!/venv/bin/python
"""Regenerates MANIFEST.json from the property modules that exist (props/cXX.py) and validates it."""
import importlib
import json
import os
import sys

ROOT = os.path.dirname(os.path.dirname(os.path.abspath(__file__)))
sys.path.insert(0, ROOT)
ALL = [f"C{i:02d}" for i in range(1, 21)]
NA_REASONS = json.load(open(os.path.join(ROOT, "tools", "not_applicable.json")))

checks, na, served = [], [], []
for pid in ALL:
    path = os.path.join(ROOT, "props", pid.lower() + ".py")
    if pid in NA_REASONS or not os.path.exists(path):
        na.append({"property_id": pid, "reason": NA_REASONS.get(pid, "check not built yet in this session (work in progress); not claimed")})
        continue
    src = open(path).read()
    ns = {}
    # metadata only: evaluate the module-level string constants without importing torch
    import ast

    for node in ast.parse(src).body:
        if isinstance(node, ast.Assign) and len(node.targets) == 1 and isinstance(node.targets[0], ast.Name):
            if node.targets[0].id in ("TECHNIQUE", "LEVEL_TEXT", "LEVEL_NOTE", "DESIGN_REF", "TITLE"):
                try:
                    ns[node.targets[0].id] = ast.literal_eval(node.value)
                except Exception:
                    pass
    served.append(pid)
    checks.append({
        "property_id": pid,
        "quick_cmd": f"./check {pid} --tier quick",
        "thorough_cmd": f"./check {pid} --tier thorough",
        "evidence_file": f"/verif/evidence/{pid}.json",
        "replay_cmd_template": f"./check {pid} --replay {{path}}",
        "engine": "vlib",
        "level_claimed": {
            "category": "model_checking",
            "text": ns.get("LEVEL_TEXT", "bounded exhaustive exploration of the real implementation against an executable reference model; every enumerated trace is executed on the code"),
            "design_ref": ns.get("DESIGN_REF", f"DESIGN.md section 4, {pid}"),
        },
        "level_note": ns.get("LEVEL_NOTE", "trusts torch dense kernels as the reference; value alphabets are finite (see evidence bounds)"),
        "technique": ns.get("TECHNIQUE", "bounded exhaustive explicit-state exploration on the implementation vs reference model"),
    })

manifest = {
    "version": 1,
    "setup_cmd": "/venv/bin/python -c \"import sys; sys.path.insert(0,'/verif'); import vlib.env\" && python3-vt -c \"import jsonschema\"",
    "hooks": {
        "guard": "LINEAR_OPERATOR_VERIF",
        "enable": "no source hooks are needed: checks import the working tree of /repo directly (editable install) and drive public/internal APIs; the guard name is reserved and set to 1 by ./check",
        "baseline_off_cmd": "cd /repo && env -u LINEAR_OPERATOR_VERIF /venv/bin/python -m pytest -ra -q -p no:cacheprovider --timeout=900 --continue-on-collection-errors",
        "source_commits": [],
        "add_only": True,
    },
    "engines": [{
        "name": "vlib",
        "path": "/verif/vlib",
        "serves_properties": served,
        "kind_free_text": "hand-written explicit-state / bounded-exhaustive explorer in Python: enumerates every operation sequence, operator term, shape, index tuple or settings program up to a bound, executes each on the real library and compares every step with a reference model (dense torch / dict+stack / float64 textbook algorithms)",
    }],
    "checks": checks,
    "not_applicable": na,
    "notes": "All checks: ./check <ID> --tier quick|thorough ; exit 0 = held, 1 = VIOLATION line, 2 = harness error. known_findings.jsonl lists open findings (printed as KNOWN-FINDING) and fixed ones (suppress nothing).",
}
json.dump(manifest, open(os.path.join(ROOT, "MANIFEST.json"), "w"), indent=1)
print("claimed:", served, "not_applicable:", [n["property_id"] for n in na])
