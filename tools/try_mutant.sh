#!/bin/sh
# usage: tools/try_mutant.sh <seed-id> <worktree> <check-id>... ; stores the mutant under seeded/<seed-id>/ and runs the given
# checks (quick tier; "C05:thorough" selects the thorough tier) against the mutated tree (VERIF_REPO=<worktree>, /repo untouched)
sid=$1; wt=$2; shift 2
out=/verif/seeded/$sid; mkdir -p $out
git -C $wt diff > $out/patch.diff
[ -f $wt/MUTANT_demo.py ] && cp $wt/MUTANT_demo.py $out/demo.py
[ -f $wt/MUTANT_meta.json ] && cp $wt/MUTANT_meta.json $out/meta.json
if [ ! -f $out/demo_output.txt ]; then (cd $wt && /venv/bin/python MUTANT_demo.py > $out/demo_output.txt 2>&1; echo "demo exit=$?" >> $out/demo_output.txt); fi
tail -1 $out/demo_output.txt
cd /verif
for spec in "$@"; do
  cid=${spec%%:*}; tier=quick; case $spec in *:thorough) tier=thorough;; esac
  VERIF_REPO=$wt ./check $cid --tier $tier --max-report 2 > /tmp/try_$sid.txt 2>&1; rc=$?
  nv=$(grep -c "^VIOLATION" /tmp/try_$sid.txt)
  line="check=$cid tier=$tier exit=$rc violation_lines=$nv $(grep -o 'new_violations=[0-9]*' /tmp/try_$sid.txt | tail -1)"
  echo "$line"; grep "^VIOLATION" /tmp/try_$sid.txt | head -1 | cut -c1-330
  grep -v "^check=$cid tier=$tier " $out/result.txt > /tmp/res_$sid.txt 2>/dev/null; echo "$line" >> /tmp/res_$sid.txt; mv /tmp/res_$sid.txt $out/result.txt
done
