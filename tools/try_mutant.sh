#!/bin/sh
# usage: tools/try_mutant.sh <seed-id> <worktree> <check-id> [tier] ; stores the mutant under seeded/<seed-id>/ and runs one check against the mutated tree
sid=$1; wt=$2; cid=$3; tier=${4:-quick}
out=/verif/seeded/$sid; mkdir -p $out
git -C $wt diff > $out/patch.diff
[ -f $wt/MUTANT_demo.py ] && cp $wt/MUTANT_demo.py $out/demo.py
[ -f $wt/MUTANT_meta.json ] && cp $wt/MUTANT_meta.json $out/meta.json
if [ ! -f $out/demo_output.txt ]; then (cd $wt && /venv/bin/python MUTANT_demo.py > $out/demo_output.txt 2>&1; echo "demo exit=$?" >> $out/demo_output.txt); fi
tail -1 $out/demo_output.txt
cd /verif && VERIF_REPO=$wt ./check $cid --tier $tier --max-report 2 2>&1 | grep -v "^KNOWN" | tail -3 | cut -c1-420
echo "exit=$?"
