#!/bin/sh
# usage: tools/reseed.sh <seed-id> <check-id>... ; re-creates a scratch worktree of /repo HEAD under /tmp, applies seeded/<id>/patch.diff,
# runs the demo and the given checks against it (tools/try_mutant.sh), and removes the worktree again
sid=$1; shift
wt=/tmp/reseed_$sid
git -C /repo worktree add -q --detach $wt HEAD || exit 2
if git -C $wt apply /verif/seeded/$sid/patch.diff; then
  cp /verif/seeded/$sid/demo.py $wt/MUTANT_demo.py; cp /verif/seeded/$sid/meta.json $wt/MUTANT_meta.json
  rm -f /verif/seeded/$sid/demo_output.txt
  /verif/tools/try_mutant.sh $sid $wt "$@"
else
  echo "patch does not apply to HEAD"
fi
git -C /repo worktree remove --force $wt
