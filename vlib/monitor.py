"""Mutation monitor (C13): version counters, layout metadata and a byte copy of the whole underlying storage of every
caller-owned tensor, before and after a transition on the real code."""
import torch


def storage_bytes(t):
    st = t.untyped_storage()
    if st.nbytes() == 0:
        return torch.empty(0, dtype=torch.uint8)
    return torch.empty(0, dtype=torch.uint8).set_(st).clone()


def snap(t):
    if t.is_sparse:
        tc = t.coalesce() if t.is_coalesced() else t
        return ("sparse", tuple(t.shape), t.dtype, tc._indices().clone(), tc._values().clone(), t._nnz())
    return ("dense", t._version, tuple(t.shape), tuple(t.stride()), t.storage_offset(), t.dtype, bool(t.requires_grad), storage_bytes(t))


def diff(label, t, s, exempt_version=False, exempt_requires_grad=False):
    """list of human-readable differences between tensor t now and its snapshot s"""
    out = []
    if s[0] == "sparse":
        if not t.is_sparse:
            return [f"{label}: no longer sparse"]
        if tuple(t.shape) != s[1]:
            out.append(f"{label}: sparse shape {s[1]} -> {tuple(t.shape)}")
        if t._nnz() != s[5]:
            out.append(f"{label}: sparse nnz {s[5]} -> {t._nnz()}")
        else:
            if tuple(t._indices().shape) != tuple(s[3].shape) or not torch.equal(t._indices(), s[3]):
                out.append(f"{label}: sparse indices changed")
            if tuple(t._values().shape) != tuple(s[4].shape) or not torch.equal(t._values(), s[4]):
                out.append(f"{label}: sparse values changed")
        return out
    _, ver, shape, stride, off, dtype, rg, raw = s
    if t._version != ver and not exempt_version:
        out.append(f"{label}: _version {ver} -> {t._version} (in-place write through this tensor or a view of it)")
    if tuple(t.shape) != shape or tuple(t.stride()) != stride or t.storage_offset() != off:
        out.append(f"{label}: layout (shape, stride, offset) {shape, stride, off} -> {tuple(t.shape), tuple(t.stride()), t.storage_offset()}")
    if t.dtype != dtype:
        out.append(f"{label}: dtype {dtype} -> {t.dtype}")
    if bool(t.requires_grad) != rg and not exempt_requires_grad:
        out.append(f"{label}: requires_grad {rg} -> {bool(t.requires_grad)}")
    now = storage_bytes(t)
    if now.numel() != raw.numel():
        out.append(f"{label}: storage size {raw.numel()} -> {now.numel()} bytes")
    elif not torch.equal(now, raw):
        nbad = int((now != raw).sum().item())
        out.append(f"{label}: {nbad} bytes of the underlying storage changed")
    return out


class Watch:
    def __init__(self):
        self.items = []

    def add(self, label, t):
        if torch.is_tensor(t):
            self.items.append((label, t, snap(t)))
        return t

    def add_operator(self, label, op):
        """every tensor of the representation of an existing operator (recursively), plus its non-tensor constructor arguments"""
        try:
            rep = op.representation()
        except Exception:  # noqa: B902
            rep = ()
        for i, t in enumerate(rep):
            if torch.is_tensor(t):
                self.items.append((f"{label}.representation[{i}]", t, snap(t)))

    def check(self, exempt_version=False, exempt_requires_grad=False):
        out = []
        for label, t, s in self.items:
            out += diff(label, t, s, exempt_version, exempt_requires_grad)
        return out


def lay(t, layout, sentinel=777, expand_dim=None):
    """the same values in a different memory layout"""
    if layout == "contig" or t.numel() == 0:
        return t.clone()
    if layout == "tview":
        if t.ndim >= 2:
            return t.mT.contiguous().mT
        if t.ndim == 0:
            return t.clone()
        big = torch.full((t.shape[0] * 2,), sentinel, dtype=t.dtype)
        big[::2] = t
        return big[::2]
    if layout == "sliced":
        if t.ndim == 0:
            big = torch.full((3,), sentinel, dtype=t.dtype)
            big[1] = t
            return big[1]
        big = torch.full((*t.shape[:-1], t.shape[-1] + 4), sentinel, dtype=t.dtype)
        big[..., 2:-2] = t
        return big[..., 2:-2]
    if layout == "expanded":
        # stride 0 along dimension `expand_dim` (values are replaced by the first slice along it)
        d = expand_dim
        if d is None or t.ndim == 0 or t.shape[d] <= 1:
            return t.clone()
        return t.narrow(d, 0, 1).clone().expand_as(t)
    raise ValueError(layout)
