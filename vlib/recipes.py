"""Operator term language: term -> (real operator, dense denotation computed from the leaf tensors).

A term is a JSON-friendly list  [head, kwargs-dict, *subterms].  `build(term, ctx)` constructs the
real operator through the public constructors and, bottom-up and independently, the dense batched
matrix the constructor arguments denote under the documented meaning of the structure, using only
plain torch primitives (never linear_operator code).  The denotation is differentiable with
respect to the floating leaves.
"""
import hashlib
import itertools

import torch

from . import env

import linear_operator as lo  # noqa: E402
from linear_operator import operators as O  # noqa: E402


class Ctx:
    def __init__(self, dtype=torch.float64, batch=(), seed=0, values="int", grad=None, layout=None):
        self.layout = layout  # memory layout of the floating-point leaves (vlib.monitor.lay); None = contiguous
        self.dtype = dtype
        self.batch = tuple(batch)
        self.seed = seed
        self.values = values  # "int" (exact arithmetic) or "real"
        self.grad = grad  # None or set of leaf names requiring grad
        self.leaves = {}  # name -> tensor (caller-owned tensors handed to constructors)
        self.counter = itertools.count()

    def gen(self, name):
        h = int(hashlib.sha1(f"{self.seed}|{name}".encode()).hexdigest()[:12], 16)
        g = torch.Generator()
        g.manual_seed(h)
        return g

    def register(self, name, t, nbatch=0):
        if self.layout and self.layout != "contig" and torch.is_floating_point(t):
            from .monitor import lay

            t = lay(t, self.layout, expand_dim=0 if nbatch else None)
        if torch.is_floating_point(t) and self.grad is not None and (self.grad == "all" or name in self.grad):
            t.requires_grad_(True)
        self.leaves[name] = t
        return t


class NotApplicable(Exception):
    """The term cannot be instantiated for this (dtype, batch): not a library failure."""


class Built:
    __slots__ = ("op", "dense", "term", "psd", "tri", "pd")

    def __init__(self, op, dense, term, psd=False, tri=None, pd=None):
        """psd: positive semi-definite by construction; pd: strictly positive definite (defaults to psd)."""
        self.op, self.dense, self.term, self.psd, self.tri = op, dense, term, psd, tri
        self.pd = psd if pd is None else pd


# ------------------------------------------------------------------------------------------------
# leaves
# ------------------------------------------------------------------------------------------------
def _randint(ctx, name, shape, lo_, hi):
    return torch.randint(lo_, hi + 1, tuple(shape), generator=ctx.gen(name)).to(ctx.dtype)


def leaf(ctx, path, kind, shape, batch=None):
    """Deterministic leaf tensor of shape batch + shape; kind selects the value family."""
    batch = ctx.batch if batch is None else tuple(batch)
    name = f"{path}:{kind}"
    full = tuple(batch) + tuple(shape)
    if kind == "int":  # general entries in -3..3, no all-zero rows
        t = _randint(ctx, name, full, -3, 3)
        t = t + (t.abs().sum(-1, keepdim=True) == 0).to(ctx.dtype)
    elif kind == "pos":  # strictly positive
        t = _randint(ctx, name, full, 1, 4)
    elif kind == "psd":  # B B^T + n I : positive definite with integer entries
        # (re-drawn until every member has well separated eigenvalues: a repeated eigenvalue - e.g. 6 I - makes Krylov methods
        # stop early by design, which is exercised by the dedicated "psd_rep" leaves and not by an accident of the seed)
        n = shape[-1]
        for attempt in range(50):
            b = _randint(ctx, name if attempt == 0 else f"{name}#{attempt}", full, -2, 2)
            t = b @ b.mT + n * torch.eye(n, dtype=ctx.dtype)
            ev = torch.linalg.eigvalsh(t.double())
            if n == 1 or bool(((ev[..., 1:] - ev[..., :-1]) > 0.05 * ev[..., -1:]).all()):
                break
    elif kind == "psd_spread":  # geometric spectrum 1 .. 1e3 in a random orthonormal basis: iterative solvers with default tolerances are visibly inexact
        n = shape[-1]
        q, _ = torch.linalg.qr(torch.randn(full, generator=ctx.gen(name), dtype=torch.float64))
        lam = torch.logspace(0, 3, n, dtype=torch.float64)
        t = (q * lam) @ q.mT
        t = (0.5 * (t + t.mT)).to(ctx.dtype)
    elif kind == "psd_rep":  # c I: positive definite with one repeated eigenvalue
        n = shape[-1]
        t = _randint(ctx, name, tuple(batch) + (1, 1), 2, 6) * torch.eye(n, dtype=ctx.dtype)
    elif kind == "tril" or kind == "triu":
        n = shape[-1]
        t = _randint(ctx, name, full, -2, 2)
        t = torch.tril(t, -1) + torch.diag_embed(_randint(ctx, name + "d", full[:-1], 1, 3))
        if kind == "triu":
            t = t.mT.contiguous()
    elif kind == "toep_psd":  # diagonally dominant first column; off-diagonals +-1, +-2, ... (distinct magnitudes keep the
        # eigenvalues distinct: (7, 1, 1) has the spectrum 6, 6, 9, which starves Krylov methods)
        nn = full[-1]
        sign = _randint(ctx, name, full, 0, 1) * 2 - 1
        t = sign * torch.arange(nn, dtype=ctx.dtype)
        t[..., 0] = nn * (nn - 1) + 1
    elif kind == "real":
        t = torch.randn(full, generator=ctx.gen(name), dtype=torch.float64).to(ctx.dtype)
    else:
        raise ValueError(kind)
    if ctx.values == "real" and kind in ("int", "pos", "psd", "tril", "triu", "toep_psd"):  # (psd_rep stays exactly c I)
        # smooth perturbation keeps the structural class (psd / triangular / positive)
        pert = 0.25 * torch.rand(full, generator=ctx.gen(name + "r"), dtype=torch.float64).to(ctx.dtype)
        if kind == "psd":
            pert = pert @ pert.mT
        elif kind == "tril":
            pert = torch.tril(pert)
        elif kind == "triu":
            pert = torch.triu(pert)
        t = t + pert
    return ctx.register(name, t.contiguous(), nbatch=len(batch))


def bkron(a, b):
    """batched Kronecker product with broadcasting batch dims (reference definition)."""
    bs = torch.broadcast_shapes(a.shape[:-2], b.shape[:-2])
    a = a.expand(*bs, *a.shape[-2:])
    b = b.expand(*bs, *b.shape[-2:])
    r = a[..., :, None, :, None] * b[..., None, :, None, :]
    return r.reshape(*bs, a.shape[-2] * b.shape[-2], a.shape[-1] * b.shape[-1])


def toeplitz_dense(c):
    n = c.shape[-1]
    idx = (torch.arange(n)[:, None] - torch.arange(n)[None, :]).abs()
    return c[..., idx]


def interp_matrix(idx, val, ncols):
    """W (.., m, ncols) with W[i, idx[i,k]] += val[i,k]."""
    W = torch.zeros(*idx.shape[:-1], ncols, dtype=val.dtype)
    return W.scatter_add(-1, idx, val)


def block_diag_dense(blocks):
    """blocks: (..., k, n, n) -> (..., k*n, k*n)"""
    *b, k, n, m = blocks.shape
    out = torch.zeros(*b, k * n, k * m, dtype=blocks.dtype)
    rows = []
    for i in range(k):
        row = [blocks[..., i, :, :] if j == i else torch.zeros(*b, n, m, dtype=blocks.dtype) for j in range(k)]
        rows.append(torch.cat(row, -1))
    return torch.cat(rows, -2) if k else out


def block_interleaved_dense(blocks):
    """entry (i*k + a, j*k + a') = blocks[a, i, j] if a == a' else 0."""
    *b, k, n, m = blocks.shape
    out = torch.zeros(*b, n, k, m, k, dtype=blocks.dtype)
    parts = []
    for a in range(k):
        sel = torch.zeros(k, k, dtype=blocks.dtype)
        sel[a, a] = 1
        parts.append(blocks[..., a, :, None, :, None] * sel[None, :, None, :])
    out = sum(parts)
    return out.reshape(*b, n * k, m * k)


# kernel functions (module level: they must not close over parameters)
def k_linear(x1, x2, scale=None, **kw):
    res = x1 @ x2.mT
    if scale is not None:
        res = res * scale
    return res


def k_rbf(x1, x2, lengthscale=None, outputscale=None, **kw):
    x1 = x1 / lengthscale
    x2 = x2 / lengthscale
    sq = (x1.unsqueeze(-2) - x2.unsqueeze(-3)).square().sum(-1)
    k = sq.div(-2.0).exp()
    if outputscale is not None:
        k = k * outputscale[..., None, None].square()
    return k


def k_multi(x1, x2, tmat=None, **kw):
    """2 outputs per input: K = (x1 x2^T) kron tmat, interleaved per data point."""
    base = x1 @ x2.mT
    return bkron(base, tmat)


def k_linear_keops(x1, x2, diag=False, **kw):
    if diag:
        return (x1 * x2).sum(-1)
    return x1 @ x2.mT


def k_multi_op(x1, x2, tmat=None, **kw):
    """as k_multi, the task covariance handed over as a LinearOperator held by keyword"""
    base = x1 @ x2.mT
    return bkron(base, tmat.to_dense() if isinstance(tmat, O.LinearOperator) else tmat)


KFUNCS = {"linear": k_linear, "rbf": k_rbf, "multi": k_multi, "multi_op": k_multi_op}


class UserOp(O.LinearOperator):
    """A minimal user subclass: only multiplication, size and transpose."""

    def __init__(self, mat):
        super().__init__(mat)
        self.mat = mat

    def _matmul(self, rhs):
        return self.mat @ rhs

    def _size(self):
        return self.mat.shape

    def _transpose_nonbatch(self):
        return UserOp(self.mat.mT)


# ------------------------------------------------------------------------------------------------
# build
# ------------------------------------------------------------------------------------------------
def build(term, ctx, path="r", batch=None):
    """Returns Built(op, dense).  `batch` = leaf batch shape requested for this subtree."""
    head, kw, subs = term[0], (term[1] if len(term) > 1 else {}), term[2:]
    batch = ctx.batch if batch is None else tuple(batch)
    if "lb" in kw:  # explicit leaf batch (broadcasting variants); "ones": size-1 dimensions against the requested batch shape
        batch = tuple(1 for _ in batch) if kw["lb"] == "ones" else tuple(kw["lb"])
    dt = ctx.dtype

    def sub(i, b=None):
        return build(subs[i], ctx, f"{path}.{i}", batch if b is None else b)

    def parts_of():
        """all sub-terms; auxiliary operands flagged {"fb": True} follow the actual batch shape of the others."""
        built = {i: sub(i) for i in range(len(subs)) if not (len(subs[i]) > 1 and subs[i][1].get("fb"))}
        lead = next(iter(built.values())).dense.shape[:-2] if built else batch
        for i in range(len(subs)):
            if i not in built:
                built[i] = sub(i, tuple(lead))
        return [built[i] for i in range(len(subs))]

    if head == "Dense":
        kind = kw.get("kind", "int")
        n, m = kw["n"], kw.get("m", kw["n"])
        A = leaf(ctx, path, kind, (n, m), batch)
        tri = {"tril": "lower", "triu": "upper"}.get(kind)
        return Built(O.DenseLinearOperator(A), A, term, psd=kind in ("psd", "psd_rep", "psd_spread"), tri=tri)
    if head == "User":
        A = leaf(ctx, path, kw.get("kind", "int"), (kw["n"], kw.get("m", kw["n"])), batch)
        return Built(UserOp(A), A, term, psd=kw.get("kind") == "psd")
    if head == "Diag":
        d = leaf(ctx, path, kw.get("kind", "pos"), (kw["n"],), batch)
        return Built(O.DiagLinearOperator(d), torch.diag_embed(d), term, psd=kw.get("kind", "pos") == "pos", tri="diag")
    if head == "ConstDiag":
        c = leaf(ctx, path, kw.get("kind", "pos"), (1,), batch)
        n = kw["n"]
        return Built(O.ConstantDiagLinearOperator(c, diag_shape=n), c.unsqueeze(-1) * torch.eye(n, dtype=dt), term,
                     psd=kw.get("kind", "pos") == "pos", tri="diag")
    if head == "Identity":
        n = kw["n"]
        op = O.IdentityLinearOperator(n, batch_shape=torch.Size(batch), dtype=dt)
        return Built(op, torch.eye(n, dtype=dt).expand(*batch, n, n), term, psd=True, tri="diag")
    if head == "Zero":
        n, m = kw["n"], kw.get("m", kw["n"])
        return Built(O.ZeroLinearOperator(*batch, n, m, dtype=dt), torch.zeros(*batch, n, m, dtype=dt), term)
    if head == "Toeplitz":
        c = leaf(ctx, path, kw.get("kind", "toep_psd"), (kw["n"],), batch)
        return Built(O.ToeplitzLinearOperator(c), toeplitz_dense(c), term, psd=kw.get("kind", "toep_psd") == "toep_psd")
    if head == "Tri":
        inner = sub(0)
        upper = kw.get("upper", False)
        return Built(O.TriangularLinearOperator(inner.op, upper=upper), inner.dense, term, tri="upper" if upper else "lower")
    if head == "TriT":  # TriangularLinearOperator over a raw tensor
        upper = kw.get("upper", False)
        A = leaf(ctx, path, "triu" if upper else "tril", (kw["n"], kw["n"]), batch)
        if kw.get("negdiag"):
            # a triangular factor need not have a positive diagonal (e.g. the R of a QR factorisation): flip the sign of every other column /
            # row, which keeps L L^T (R^T R) unchanged in value class and makes sign-sensitive shortcuts (log of the diagonal) visible
            sg = torch.tensor([1.0 if i % 2 else -1.0 for i in range(kw["n"])], dtype=A.dtype)
            with torch.no_grad():
                A.mul_(sg.unsqueeze(-1) if upper else sg)
        return Built(O.TriangularLinearOperator(A, upper=upper), A, term, tri="upper" if upper else "lower")
    if head == "Chol":
        inner = sub(0)
        upper = kw.get("upper", False)
        dense = inner.dense.mT @ inner.dense if upper else inner.dense @ inner.dense.mT
        return Built(O.CholLinearOperator(inner.op, upper=upper), dense, term, psd=True)
    if head == "Root" or head == "LowRankRoot":
        inner = sub(0)
        cls = O.RootLinearOperator if head == "Root" else O.LowRankRootLinearOperator
        arg = inner.dense if kw.get("raw") and isinstance(inner.op, O.DenseLinearOperator) else inner.op
        if kw.get("raw") and isinstance(inner.op, O.DenseLinearOperator):
            arg = inner.op.tensor
        return Built(cls(arg), inner.dense @ inner.dense.mT, term, psd=True, pd=False)
    if head in ("Kron", "KronTri", "KronDiag"):
        parts = parts_of()
        dense = parts[0].dense
        for p in parts[1:]:
            dense = bkron(dense, p.dense)
        if head == "Kron":
            op = O.KroneckerProductLinearOperator(*[p.op for p in parts])
        elif head == "KronTri":
            op = O.KroneckerProductTriangularLinearOperator(*[p.op for p in parts], upper=kw.get("upper", False))
        else:
            op = O.KroneckerProductDiagLinearOperator(*[p.op for p in parts])
        tri = "diag" if head == "KronDiag" else (("upper" if kw.get("upper") else "lower") if head == "KronTri" else None)
        return Built(op, dense, term, psd=all(p.psd for p in parts), tri=tri, pd=all(p.pd for p in parts))
    if head in ("AddedDiag", "KronAddedDiag", "LowRankRootAddedDiag", "Sum", "PsdSum", "SumKron"):
        parts = parts_of()
        cls = {
            "AddedDiag": O.AddedDiagLinearOperator, "KronAddedDiag": O.KroneckerProductAddedDiagLinearOperator,
            "LowRankRootAddedDiag": O.LowRankRootAddedDiagLinearOperator, "Sum": O.SumLinearOperator,
            "PsdSum": O.PsdSumLinearOperator, "SumKron": O.SumKroneckerLinearOperator,
        }[head]
        dense = parts[0].dense
        for p in parts[1:]:
            dense = dense + p.dense
        return Built(cls(*[p.op for p in parts]), dense, term, psd=all(p.psd for p in parts),
                     pd=all(p.psd for p in parts) and any(p.pd for p in parts))
    if head == "Matmul":
        a, b = parts_of()
        return Built(O.MatmulLinearOperator(a.op, b.op), a.dense @ b.dense, term)
    if head == "Mul":
        a, b = parts_of()
        return Built(O.MulLinearOperator(a.op, b.op), a.dense * b.dense, term, psd=a.psd and b.psd, pd=a.pd and b.pd)
    if head == "ConstMul":
        a = sub(0)
        ck = kw.get("c", "pos")
        if ck == "pyfloat":
            c = 2.0
            op = O.ConstantMulLinearOperator(a.op, c)
            return Built(op, a.dense * c, term, psd=a.psd, pd=a.pd)
        cb = kw.get("cb", None)
        if cb == "ones":  # a constant that broadcasts through size-1 batch dimensions against the operator's batch shape
            cb = tuple(1 for _ in a.dense.shape[:-2])
        if cb == "lead":  # the leading batch dimension is real, the following ones are size-1 (a singleton after a non-singleton dimension)
            bs_ = a.dense.shape[:-2]
            cb = tuple(bs_[:1]) + tuple(1 for _ in bs_[1:])
        cb = tuple(cb) if cb is not None else a.dense.shape[:-2]
        c = leaf(ctx, path + ".c", {"pos": "pos", "neg": "pos", "mixed": "int"}[ck], (), cb)
        cc = -c if ck == "neg" else c
        if ck == "neg":
            ctx.leaves.pop(f"{path}.c:pos")
            cc = ctx.register(f"{path}.c:neg", cc.detach().clone())
        return Built(O.ConstantMulLinearOperator(a.op, cc), a.dense * cc[..., None, None], term, psd=a.psd and ck == "pos", pd=a.pd and ck == "pos")
    if head in ("BlockDiag", "BlockInterleaved", "SumBatch"):
        k = kw.get("k", 2)
        cls = {"BlockDiag": O.BlockDiagLinearOperator, "BlockInterleaved": O.BlockInterleavedLinearOperator,
               "SumBatch": O.SumBatchLinearOperator}[head]
        bd = kw.get("bd")
        if bd in ("first", "first_neg"):  # the block dimension leads the base's batch dimensions (block_dim=0 or its negative equivalent)
            inner = sub(0, (k,) + batch)
            blocks = inner.dense.movedim(0, -3)
            built_op = cls(inner.op, block_dim=0 if bd == "first" else -(len(batch) + 3))
        else:
            inner = sub(0, batch + (k,))
            blocks = inner.dense
            built_op = cls(inner.op)
        if head == "BlockDiag":
            dense = block_diag_dense(blocks)
        elif head == "BlockInterleaved":
            dense = block_interleaved_dense(blocks)
        else:
            dense = blocks.sum(-3)
        return Built(built_op, dense, term, psd=inner.psd, tri=inner.tri if head != "SumBatch" else None, pd=inner.pd)
    if head == "BatchRepeat":
        inner = sub(0)
        ib = len(inner.dense.shape[:-2])
        # documented use: one repeat count per (left-padded) batch dimension of the base operator
        if kw.get("lead"):
            rep = torch.Size([kw["r"]] + [1] * ib)
        else:
            rep = torch.Size([1] * max(ib - 1, 0) + [kw["r"]])
        return Built(O.BatchRepeatLinearOperator(inner.op, batch_repeat=rep), inner.dense.repeat(*rep, 1, 1), term,
                     psd=inner.psd, tri=inner.tri, pd=inner.pd)
    if head == "Cat":
        parts = parts_of()
        dim = kw["dim"]
        return Built(O.CatLinearOperator(*[p.op for p in parts], dim=dim), torch.cat([p.dense for p in parts], dim), term)
    if head == "Interp":
        inner = sub(0)
        nb_r, nb_c = inner.dense.shape[-2], inner.dense.shape[-1]
        m, n, k = kw.get("m", nb_r + 1), kw.get("n", nb_c + 1), kw.get("k", 2)
        ib = inner.dense.shape[:-2]
        mode = kw.get("mode", "general")
        if mode == "identity":
            op = O.InterpolatedLinearOperator(inner.op)
            return Built(op, inner.dense, term, psd=inner.psd, pd=inner.pd)
        li = torch.randint(0, nb_r, (*ib, m, k), generator=ctx.gen(path + "li"))
        ri = torch.randint(0, nb_c, (*ib, n, k), generator=ctx.gen(path + "ri"))
        if mode == "dup":  # duplicate indices within a row
            li[..., 1] = li[..., 0]
        lv = leaf(ctx, path + ".lv", "int", (m, k), ib)
        rv = leaf(ctx, path + ".rv", "int", (n, k), ib)
        if mode == "zeros":
            lv = ctx.register(f"{path}.lv:int", (lv.detach() * 0).contiguous())
        ctx.leaves[path + ".li"] = li
        ctx.leaves[path + ".ri"] = ri
        if mode == "sym":  # same weights left and right -> PSD when base is
            ri, rv = li, lv
            n = m
        if mode == "sameidx":  # the same interpolation indices on both sides but different weights (e.g. interp @ Diag): memos keyed
            ri = li.clone()    # by the indices alone would confuse the two sparse interpolation matrices
            rv = leaf(ctx, path + ".rv2", "int", (m, k), ib)
            ctx.leaves[path + ".ri"] = ri
            n = m
        Wl = interp_matrix(li, lv, nb_r)
        Wr = interp_matrix(ri, rv, nb_c)
        op = O.InterpolatedLinearOperator(inner.op, li, lv, ri, rv)
        return Built(op, Wl @ inner.dense @ Wr.mT, term, psd=inner.psd and mode == "sym", pd=False)
    if head == "Masked":
        inner = sub(0)
        nr, nc = inner.dense.shape[-2:]
        rm = torch.ones(nr, dtype=torch.bool)
        cm = torch.ones(nc, dtype=torch.bool)
        rm[kw.get("rdrop", 0) % nr] = False
        if kw.get("same", True) and nr == nc:
            cm = rm.clone()
        else:
            cm[kw.get("cdrop", nc - 1) % nc] = False
        ctx.leaves[path + ".rm"] = rm
        ctx.leaves[path + ".cm"] = cm
        dense = inner.dense[..., rm, :][..., :, cm]
        return Built(O.MaskedLinearOperator(inner.op, rm, cm), dense, term, psd=inner.psd and torch.equal(rm, cm), pd=inner.pd and torch.equal(rm, cm))
    if head in ("Perm", "TransposePerm") and dt != torch.float32:
        raise NotApplicable("permutation operators exist in float32 only")
    if head == "TransposePerm" and batch:
        raise NotApplicable("TransposePermutationLinearOperator has no batch form")
    if head == "Perm":
        n = kw["n"]
        g = ctx.gen(path + "perm")
        if batch:
            flat = torch.stack([torch.randperm(n, generator=g) for _ in range(int(torch.Size(batch).numel()))])
            perm = flat.reshape(*batch, n)
        else:
            perm = torch.randperm(n, generator=g)
        ctx.leaves[path + ".perm"] = perm
        dense = torch.zeros(*batch, n, n, dtype=torch.float32).scatter(-1, perm.unsqueeze(-1), 1.0)
        return Built(O.PermutationLinearOperator(perm), dense, term)
    if head == "TransposePerm":
        m = kw["m"]
        n = m * m
        idx = torch.arange(n).reshape(m, m).mT.reshape(-1)
        dense = torch.zeros(n, n, dtype=torch.float32)
        dense[torch.arange(n), idx] = 1.0
        return Built(O.TransposePermutationLinearOperator(m), dense, term)
    if head == "Kernel":
        fn = kw["fn"]
        n1, n2, d = kw["n"], kw.get("m", kw["n"]), kw.get("d", 2)
        x1 = leaf(ctx, path + ".x1", "int", (n1, d), batch)
        x2 = x1 if kw.get("sym") else leaf(ctx, path + ".x2", "int", (n2, d), batch)
        params, kwargs = {}, {}
        pb = tuple(kw["pb"]) if "pb" in kw else batch
        if fn == "linear":
            if kw.get("scale", True):
                params["scale"] = leaf(ctx, path + ".scale", "pos", (1, 1), pb)
        elif fn == "rbf":
            params["lengthscale"] = leaf(ctx, path + ".ls", "pos", (1, d), pb) + 2
            ctx.leaves[f"{path}.ls:pos"] = params["lengthscale"]
            params["outputscale"] = leaf(ctx, path + ".os", "pos", (), pb)
            kwargs["num_nonbatch_dimensions"] = {"outputscale": 0}
        elif fn == "multi":
            params["tmat"] = leaf(ctx, path + ".tmat", "psd", (2, 2), pb)
            kwargs["num_outputs_per_input"] = (2, 2)
        elif fn == "multi_op":  # a sub-operator passed by keyword (task covariance B B^T as a RootLinearOperator); non-tensor keyword
            # arguments are constants of the kernel (never batch-indexed by the class), so the sub-operator carries no batch dimensions
            params["tmat"] = O.RootLinearOperator(leaf(ctx, path + ".troot", "tril", (2, 2), ()))
            kwargs["num_outputs_per_input"] = (2, 2)
        op = O.KernelLinearOperator(x1, x2, covar_func=KFUNCS[fn], **kwargs, **params)
        dense = KFUNCS[fn](x1, x2, **params)
        bs = torch.broadcast_shapes(dense.shape[:-2], batch, pb)
        return Built(op, dense.expand(*bs, *dense.shape[-2:]), term, psd=bool(kw.get("sym")) and fn in ("rbf", "linear", "multi", "multi_op"),
                     pd=False)  # RBF Gram matrices on the integer grid are too ill-conditioned to count as "comfortably PD"
    if head == "KeOps":
        n1, n2, d = kw["n"], kw.get("m", kw["n"]), kw.get("d", 2)
        x1 = leaf(ctx, path + ".x1", "int", (n1, d), batch)
        x2 = leaf(ctx, path + ".x2", "int", (n2, d), batch)
        import warnings

        with warnings.catch_warnings():
            warnings.simplefilter("ignore")
            op = O.KeOpsLinearOperator(x1, x2, k_linear_keops)
        return Built(op, x1 @ x2.mT, term)
    raise ValueError(f"unknown head {head}")


def fresh(term, dtype=torch.float64, batch=(), seed=0, values="int", grad=None, layout=None):
    ctx = Ctx(dtype=dtype, batch=batch, seed=seed, values=values, grad=grad, layout=layout)
    b = build(term, ctx)
    return b, ctx


# ------------------------------------------------------------------------------------------------
# catalogue
# ------------------------------------------------------------------------------------------------
def D(n, m=None, kind="int"):
    return ["Dense", {"n": n, "m": m or n, "kind": kind}]


def catalogue(n=3, include_rect=True):
    """depth-1 (and constructor-forced depth-2) terms; every class appears at least once."""
    P = D(n, kind="psd")
    cat = {
        "Dense": D(n), "DensePSD": P, "User": ["User", {"n": n}],
        "Diag": ["Diag", {"n": n}], "DiagMixed": ["Diag", {"n": n, "kind": "int"}],
        "ConstDiag": ["ConstDiag", {"n": n}], "Identity": ["Identity", {"n": n}], "Zero": ["Zero", {"n": n}],
        "Toeplitz": ["Toeplitz", {"n": n}],
        "TriL": ["TriT", {"n": n, "upper": False}], "TriU": ["TriT", {"n": n, "upper": True}],
        "TriLop": ["Tri", {"upper": False}, D(n, kind="tril")], "TriUop": ["Tri", {"upper": True}, D(n, kind="triu")],
        "CholL": ["Chol", {"upper": False}, ["TriT", {"n": n, "upper": False}]],
        "CholU": ["Chol", {"upper": True}, ["TriT", {"n": n, "upper": True}]],
        "CholLneg": ["Chol", {"upper": False}, ["TriT", {"n": n, "upper": False, "negdiag": True}]],
        "CholUneg": ["Chol", {"upper": True}, ["TriT", {"n": n, "upper": True, "negdiag": True}]],
        "TriLneg": ["TriT", {"n": n, "upper": False, "negdiag": True}],
        "Root": ["Root", {}, D(n, 2)], "RootSq": ["Root", {}, D(n)], "LowRankRoot": ["LowRankRoot", {}, D(n, 2)],
        "Kron": ["Kron", {}, D(2, kind="psd"), D(n, kind="psd")],
        "Kron3": ["Kron", {}, D(2, kind="psd"), D(2, kind="psd"), D(2, kind="psd")],
        "KronGen": ["Kron", {}, D(2), D(n)],
        # lazy identity factors (structured classes tend to special-case them)
        "KronIdLeft": ["Kron", {}, ["Identity", {"n": 2}], D(n, kind="psd")], "KronIdRight": ["Kron", {}, D(n, kind="psd"), ["Identity", {"n": 2}]],
        "KronTriL": ["KronTri", {"upper": False}, ["TriT", {"n": 2}], ["TriT", {"n": n}]],
        "KronTriU": ["KronTri", {"upper": True}, ["TriT", {"n": 2, "upper": True}], ["TriT", {"n": n, "upper": True}]],
        "KronDiag": ["KronDiag", {}, ["Diag", {"n": 2}], ["Diag", {"n": n}]],
        "KronDiagConst": ["KronDiag", {}, ["ConstDiag", {"n": 2}], ["ConstDiag", {"n": n}]],
        "AddedDiag": ["AddedDiag", {}, P, ["Diag", {"n": n}]],
        "AddedDiagConst": ["AddedDiag", {}, P, ["ConstDiag", {"n": n}]],
        "AddedDiagRev": ["AddedDiag", {}, ["Diag", {"n": n}], P],
        "KronAddedDiagConst": ["KronAddedDiag", {}, ["Kron", {}, D(2, kind="psd"), D(n, kind="psd")], ["ConstDiag", {"n": 2 * n}]],
        "KronAddedDiag": ["KronAddedDiag", {}, ["Kron", {}, D(2, kind="psd"), D(n, kind="psd")], ["Diag", {"n": 2 * n}]],
        "KronAddedKronDiag": ["KronAddedDiag", {}, ["Kron", {}, D(2, kind="psd"), D(n, kind="psd")],
                              ["KronDiag", {}, ["Diag", {"n": 2}], ["Diag", {"n": n}]]],
        "KronAddedKronDiagConst": ["KronAddedDiag", {}, ["Kron", {}, D(2, kind="psd"), D(n, kind="psd")],
                                   ["KronDiag", {}, ["ConstDiag", {"n": 2}], ["ConstDiag", {"n": n}]]],
        "SumKron": ["SumKron", {}, ["Kron", {}, D(2, kind="psd"), D(n, kind="psd")], ["Kron", {}, D(2, kind="psd"), D(n, kind="psd")]],
        # a Kronecker factor with a repeated eigenvalue (c I): the large-matrix paths build on Lanczos decompositions of the factors
        "SumKronRep": ["SumKron", {}, ["Kron", {}, D(2, kind="psd"), D(n, kind="psd")], ["Kron", {}, D(2, kind="psd_rep"), D(n, kind="psd")]],
        "KronRepAddedKronDiagConst": ["KronAddedDiag", {}, ["Kron", {}, D(2, kind="psd_rep"), D(n, kind="psd")],
                                      ["KronDiag", {}, ["ConstDiag", {"n": 2}], ["ConstDiag", {"n": n}]]],
        "LowRankRootAddedDiag": ["LowRankRootAddedDiag", {}, ["LowRankRoot", {}, D(n, 2)], ["Diag", {"n": n}]],
        "LowRankRootAddedConstDiag": ["LowRankRootAddedDiag", {}, ["LowRankRoot", {}, D(n, 2)], ["ConstDiag", {"n": n}]],
        "Sum": ["Sum", {}, D(n), ["Toeplitz", {"n": n}]], "Sum3": ["Sum", {}, D(n), D(n), ["Diag", {"n": n}]],
        "PsdSum": ["PsdSum", {}, P, ["Toeplitz", {"n": n}]],
        "Matmul": ["Matmul", {}, D(n), D(n)], "MatmulPSD": ["Matmul", {}, D(n, 2), D(2, n)],
        "Mul": ["Mul", {}, P, ["Toeplitz", {"n": n}]],
        "ConstMul": ["ConstMul", {"c": "pos"}, D(n)], "ConstMulNeg": ["ConstMul", {"c": "neg"}, P],
        "ConstMulPSD": ["ConstMul", {"c": "pos"}, P], "ConstMulBcast": ["ConstMul", {"c": "pos", "cb": "ones"}, D(n)],
        "ConstMulBcastLead": ["ConstMul", {"c": "pos", "cb": "lead"}, ["Toeplitz", {"n": n}]],
        # operands whose batch shapes only broadcast against each other (unbatched / size-1 batch dimensions next to a batched operand)
        "SumBcast": ["Sum", {}, D(n), ["Toeplitz", {"n": n, "lb": []}]],
        "AddedDiagBcast": ["AddedDiag", {}, P, ["Diag", {"n": n, "lb": "ones"}]],
        "MatmulBcast": ["Matmul", {}, D(n), ["Dense", {"n": n, "m": n, "kind": "int", "lb": []}]],
        "BlockDiag": ["BlockDiag", {"k": 2}, P], "BlockDiagGen": ["BlockDiag", {"k": 2}, D(n)],
        "BlockDiag3": ["BlockDiag", {"k": 3}, D(2, kind="psd")],
        "BlockInterleaved": ["BlockInterleaved", {"k": 2}, P], "BlockInterleaved3": ["BlockInterleaved", {"k": 3}, D(3, kind="psd")],
        "SumBatch": ["SumBatch", {"k": 2}, P],
        # a block dimension that is not the last batch dimension of the base
        "BlockDiagDim0": ["BlockDiag", {"k": 2, "bd": "first"}, P], "BlockInterleavedDim0": ["BlockInterleaved", {"k": 2, "bd": "first_neg"}, P],
        "SumBatchDim0": ["SumBatch", {"k": 2, "bd": "first"}, D(n)],
        "BatchRepeat": ["BatchRepeat", {"r": 2}, P], "BatchRepeat2": ["BatchRepeat", {"r": 2, "lead": True}, D(n)],
        "CatRows": ["Cat", {"dim": -2}, D(2, n), D(n)], "CatCols": ["Cat", {"dim": -1}, D(n, 2), D(n)],
        "Interp": ["Interp", {"mode": "general"}, P], "InterpSym": ["Interp", {"mode": "sym", "m": n + 1}, P],
        "InterpId": ["Interp", {"mode": "identity"}, P], "InterpDup": ["Interp", {"mode": "dup"}, D(n)],
        # one interpolation point per row with weights != 1 (a weighted selection): the degenerate width of the interpolation stencil
        "InterpSameIdx": ["Interp", {"mode": "sameidx", "m": n + 1}, P],
        "InterpK1": ["Interp", {"mode": "general", "k": 1}, P], "InterpSymK1": ["Interp", {"mode": "sym", "m": n + 1, "k": 1}, P],
        "InterpZeros": ["Interp", {"mode": "zeros"}, D(n)],
        "Masked": ["Masked", {"same": True}, D(n + 1, kind="psd")], "MaskedRect": ["Masked", {"same": False, "rdrop": 0, "cdrop": 1}, D(n + 1)],
        "Perm": ["Perm", {"n": n}], "TransposePerm": ["TransposePerm", {"m": 2}],
        "KernelLin": ["Kernel", {"fn": "linear", "n": n, "m": n + 1}], "KernelLinSym": ["Kernel", {"fn": "linear", "n": n, "sym": True}],
        "KernelRBF": ["Kernel", {"fn": "rbf", "n": n, "sym": True}], "KernelMulti": ["Kernel", {"fn": "multi", "n": 2, "m": 3}],
        "KernelMultiSym": ["Kernel", {"fn": "multi", "n": 2, "sym": True}],
        "KernelMultiOpKw": ["Kernel", {"fn": "multi_op", "n": 2, "m": 3}],
        "KeOps": ["KeOps", {"n": n, "m": n + 1}],
    }
    if include_rect:
        cat.update({
            "DenseRect": D(n, n + 1), "UserRect": ["User", {"n": 2, "m": n}], "ZeroRect": ["Zero", {"n": 2, "m": n}],
            "KronRect": ["Kron", {}, D(2, 3), D(n, 2)], "MatmulRect": ["Matmul", {}, D(2, n), D(n, 4)],
            "ConstMulRect": ["ConstMul", {"c": "pos"}, D(2, n)], "SumRect": ["Sum", {}, D(2, n), D(2, n)],
            "BatchRepeatRect": ["BatchRepeat", {"r": 2}, D(2, n)], "InterpRect": ["Interp", {"mode": "general", "m": 2, "n": 5}, D(n, 4)],
            "BlockInterleavedRect": ["BlockInterleaved", {"k": 2}, D(2, n)], "SumBatchRect": ["SumBatch", {"k": 2}, D(2, n)],
        })
    return cat


WRAPPERS = {
    # name -> (function inner-term -> term, requirement on the inner: "any" | "square" | "psd" | "tri")
    "Tri": (lambda t, tri: ["Tri", {"upper": tri == "upper"}, t], "tri"),
    "Chol": (lambda t, tri: ["Chol", {"upper": tri == "upper"}, t], "triop"),
    "Root": (lambda t, _: ["Root", {}, t], "any"),
    "LowRankRoot": (lambda t, _: ["LowRankRoot", {}, t], "any"),
    "ConstMul": (lambda t, _: ["ConstMul", {"c": "pos"}, t], "any"),
    "ConstMulNeg": (lambda t, _: ["ConstMul", {"c": "neg"}, t], "any"),
    "BlockDiag": (lambda t, _: ["BlockDiag", {"k": 2}, t], "square"),
    "BlockInterleaved": (lambda t, _: ["BlockInterleaved", {"k": 2}, t], "any"),
    "SumBatch": (lambda t, _: ["SumBatch", {"k": 2}, t], "any"),
    "BatchRepeat": (lambda t, _: ["BatchRepeat", {"r": 2}, t], "any"),
    "Interp": (lambda t, _: ["Interp", {"mode": "general"}, t], "any"),
    "Masked": (lambda t, _: ["Masked", {"same": False, "rdrop": 0, "cdrop": 1}, t], "any"),
    "MaskedSym": (lambda t, _: ["Masked", {"same": True, "rdrop": 1}, t], "square"),
    "AddedDiag": (lambda t, _: ["AddedDiag", {}, t, ["Diag", {"n": "$n", "fb": True}]], "square_nondiag"),
    "AddedConstDiag": (lambda t, _: ["AddedDiag", {}, t, ["ConstDiag", {"n": "$n", "fb": True}]], "square_nondiag"),
    "SumWithDense": (lambda t, _: ["Sum", {}, t, ["Dense", {"n": "$n", "m": "$m", "fb": True}]], "any"),
    "MatmulLeft": (lambda t, _: ["Matmul", {}, t, ["Dense", {"n": "$m", "m": 2, "fb": True}]], "any"),
    "MatmulRight": (lambda t, _: ["Matmul", {}, ["Dense", {"n": 2, "m": "$n", "fb": True}], t], "any"),
    "KronLeft": (lambda t, _: ["Kron", {}, t, ["Dense", {"n": 2, "m": 2, "fb": True}]], "any"),
    "KronRight": (lambda t, _: ["Kron", {}, ["Dense", {"n": 2, "m": 2, "fb": True}], t], "any"),
    "CatRows": (lambda t, _: ["Cat", {"dim": -2}, t, ["Dense", {"n": 2, "m": "$m", "fb": True}]], "any"),
    "CatCols": (lambda t, _: ["Cat", {"dim": -1}, ["Dense", {"n": "$n", "m": 2, "fb": True}], t], "any"),
    "MulPSD": (lambda t, _: ["Mul", {}, t, ["Dense", {"n": "$n", "kind": "psd", "fb": True}]], "psd"),
}


def _subst(term, n, m):
    if isinstance(term, list):
        return [_subst(x, n, m) for x in term]
    if isinstance(term, dict):
        return {k: _subst(v, n, m) for k, v in term.items()}
    if term == "$n":
        return n
    if term == "$m":
        return m
    return term


def shape_of(term):
    """matrix shape of a term without building values (builds once, cheap)."""
    b, _ = fresh(term)
    return tuple(b.dense.shape[-2:]), b


def nestings(n=3, wrappers=None, inner_names=None):
    """depth-2 terms: every wrapper over every admissible catalogue term."""
    cat = catalogue(n)
    out = {}
    for iname, inner in cat.items():
        if inner_names is not None and iname not in inner_names:
            continue
        (r, c), b = shape_of_safe(inner)
        if b is None:
            continue
        for wname, (mk, req) in WRAPPERS.items():
            if wrappers is not None and wname not in wrappers:
                continue
            if req in ("square", "square_nondiag") and r != c:
                continue
            if req == "square_nondiag" and isinstance(b.op, O.DiagLinearOperator):
                continue
            if req == "psd" and not b.pd:
                continue
            if req == "tri" and b.tri not in ("lower", "upper"):
                continue
            if req == "triop" and not (b.tri in ("lower", "upper") and isinstance(b.op, O.triangular_linear_operator._TriangularLinearOperatorBase)):
                continue
            out[f"{wname}({iname})"] = _subst(mk(inner, b.tri), r, c)
    return out


def shape_of_safe(term):
    try:
        return shape_of(term)
    except Exception:  # noqa: B902 - a nesting the constructors refuse
        return (None, None), None


def heads_of(term):
    out = set()

    def walk(t):
        if isinstance(t, list) and t and isinstance(t[0], str):
            out.add(t[0])
            for x in t[2:]:
                walk(x)

    walk(term)
    return sorted(out)


_RECT_MEMO = {}


def has_rect_batch_repeat(term):
    """True iff the term contains a BatchRepeat whose base operator is rectangular."""
    key = repr(term)
    if key not in _RECT_MEMO:
        found = False

        def walk(t):
            nonlocal found
            if isinstance(t, list) and t and isinstance(t[0], str):
                if t[0] == "BatchRepeat":
                    (r, c), b = shape_of_safe(t[2])
                    if b is not None and r != c:
                        found = True
                for x in t[2:]:
                    walk(x)

        walk(term)
        _RECT_MEMO[key] = found
    return _RECT_MEMO[key]


def catalogue_uniform(N=6):
    """Every class as an N x N operator (N = 2 * n) so that any two heads can be combined."""
    n = N // 2
    P = D(N, kind="psd")
    K = ["Kron", {}, D(2, kind="psd"), D(n, kind="psd")]
    cat = {
        "Dense": D(N), "DensePSD": P, "User": ["User", {"n": N}],
        "Diag": ["Diag", {"n": N}], "DiagMixed": ["Diag", {"n": N, "kind": "int"}],
        "ConstDiag": ["ConstDiag", {"n": N}], "Identity": ["Identity", {"n": N}], "Zero": ["Zero", {"n": N}],
        "Toeplitz": ["Toeplitz", {"n": N}],
        "TriL": ["TriT", {"n": N, "upper": False}], "TriU": ["TriT", {"n": N, "upper": True}],
        "CholL": ["Chol", {"upper": False}, ["TriT", {"n": N, "upper": False}]],
        "CholU": ["Chol", {"upper": True}, ["TriT", {"n": N, "upper": True}]],
        "Root": ["Root", {}, D(N, 2)], "RootSq": ["Root", {}, D(N)], "LowRankRoot": ["LowRankRoot", {}, D(N, 2)],
        "Kron": K, "KronGen": ["Kron", {}, D(2), D(n)],
        "KronTriL": ["KronTri", {"upper": False}, ["TriT", {"n": 2}], ["TriT", {"n": n}]],
        "KronDiag": ["KronDiag", {}, ["Diag", {"n": 2}], ["Diag", {"n": n}]],
        "AddedDiag": ["AddedDiag", {}, P, ["Diag", {"n": N}]],
        "AddedDiagConst": ["AddedDiag", {}, P, ["ConstDiag", {"n": N}]],
        "KronAddedDiagConst": ["KronAddedDiag", {}, K, ["ConstDiag", {"n": N}]],
        "KronAddedDiag": ["KronAddedDiag", {}, K, ["Diag", {"n": N}]],
        "KronAddedKronDiag": ["KronAddedDiag", {}, K, ["KronDiag", {}, ["Diag", {"n": 2}], ["Diag", {"n": n}]]],
        "SumKron": ["SumKron", {}, K, ["Kron", {}, D(2, kind="psd"), D(n, kind="psd")]],
        "LowRankRootAddedDiag": ["LowRankRootAddedDiag", {}, ["LowRankRoot", {}, D(N, 2)], ["Diag", {"n": N}]],
        "Sum": ["Sum", {}, D(N), ["Toeplitz", {"n": N}]], "PsdSum": ["PsdSum", {}, P, ["Toeplitz", {"n": N}]],
        "Matmul": ["Matmul", {}, D(N, 2), D(2, N)], "Mul": ["Mul", {}, P, ["Toeplitz", {"n": N}]],
        "ConstMul": ["ConstMul", {"c": "pos"}, P], "ConstMulNeg": ["ConstMul", {"c": "neg"}, P],
        "BlockDiag": ["BlockDiag", {"k": 2}, D(n, kind="psd")], "BlockInterleaved": ["BlockInterleaved", {"k": 2}, D(n, kind="psd")],
        "SumBatch": ["SumBatch", {"k": 2}, P], "BatchRepeat": ["BatchRepeat", {"r": 2}, P],
        # non-symmetric instances of the wrappers: a symmetric block hides a missing / spurious transpose
        "BlockDiagGen": ["BlockDiag", {"k": 2}, D(n)], "BlockInterleavedGen": ["BlockInterleaved", {"k": 2}, D(n)],
        "SumBatchGen": ["SumBatch", {"k": 2}, D(N)], "BatchRepeatGen": ["BatchRepeat", {"r": 2}, D(N)],
        "ConstMulGen": ["ConstMul", {"c": "pos"}, D(N)],
        "CatRows": ["Cat", {"dim": -2}, D(2, N), D(N - 2, N)],
        "Interp": ["Interp", {"mode": "general", "m": N, "n": N}, D(n + 1, kind="psd")],
        "InterpSym": ["Interp", {"mode": "sym", "m": N}, D(n + 1, kind="psd")],
        "Masked": ["Masked", {"same": True}, D(N + 1, kind="psd")],
        "KernelLinSym": ["Kernel", {"fn": "linear", "n": N, "sym": True}], "KernelRBF": ["Kernel", {"fn": "rbf", "n": N, "sym": True}],
        "KernelMultiSym": ["Kernel", {"fn": "multi", "n": n, "sym": True}],
        "KeOps": ["KeOps", {"n": N, "m": N}],
        "Perm": ["Perm", {"n": N}],
    }
    return cat


def pd_terms(tier="quick", n=3):
    """(name, term) for every catalogue term / nesting that is positive definite by construction, plus triangular ones."""
    cat = catalogue(n, include_rect=False)
    out = []
    for name, t in cat.items():
        (r, c), b = shape_of_safe(t)
        if b is not None and r == c and (b.pd or b.tri in ("lower", "upper")) and "Zero" not in heads_of(t):
            out.append((name, t, "tri" if (not b.pd and b.tri in ("lower", "upper")) else "pd"))
    wrappers = ["ConstMul", "BlockDiag", "BlockInterleaved", "SumBatch", "BatchRepeat", "MaskedSym", "AddedDiag", "AddedConstDiag", "KronLeft", "MulPSD",
                "Tri", "Chol"]
    nest = nestings(n, wrappers=wrappers)
    for name, t in nest.items():
        (r, c), b = shape_of_safe(t)
        if b is None or r != c or "Zero" in heads_of(t):
            continue
        if b.pd or (name.startswith("Tri(") and b.tri in ("lower", "upper")):
            if name.startswith("KronLeft(") and not _kron_pd(t):
                continue
            out.append((name, t, "pd" if b.pd else "tri"))
    return out


def _kron_pd(term):
    return False  # KronLeft pairs the operand with a generic (non-PD) dense factor
