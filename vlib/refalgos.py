"""float64 reference algorithms and matrix generators (no linear_operator code)."""
import hashlib
import math

import torch


def gen(tag, seed=0):
    g = torch.Generator()
    g.manual_seed(int(hashlib.sha1(f"{seed}|{tag}".encode()).hexdigest()[:12], 16) % (2**31))
    return g


def orth(n, tag, seed=0):
    Q, _ = torch.linalg.qr(torch.randn(n, n, generator=gen(tag, seed), dtype=torch.float64))
    return Q


def spectrum(fam, n, cond, scale=1.0):
    """eigenvalues in [scale, scale*cond]"""
    if n == 1:
        lam = torch.ones(1, dtype=torch.float64)
    elif fam == "geom":
        lam = torch.logspace(0, math.log10(cond), n, dtype=torch.float64)
    elif fam == "unif":
        lam = torch.linspace(1, cond, n, dtype=torch.float64)
    elif fam == "clustered":  # two tight clusters plus outliers
        k = n // 2
        lam = torch.cat([1 + 1e-3 * torch.arange(k, dtype=torch.float64), cond * (1 - 1e-3 * torch.arange(n - k, dtype=torch.float64))])
    elif fam == "repeated":
        lam = torch.cat([torch.ones(n - n // 2, dtype=torch.float64), torch.full((n // 2,), float(cond), dtype=torch.float64)])
    else:
        raise ValueError(fam)
    return lam * scale


def spd(fam, n, cond, scale, tag, seed=0, batch=()):
    mats, lams = [], []
    for i in range(max(1, int(torch.Size(batch).numel()))):
        Q = orth(n, f"{tag}|{i}", seed)
        lam = spectrum(fam, n, cond, scale)
        A = (Q * lam) @ Q.mT
        mats.append(0.5 * (A + A.mT))
        lams.append(lam)
    A = torch.stack(mats).reshape(*batch, n, n) if batch else mats[0]
    return A, lams[0]


def lanczos_ref(A, z, m):
    """textbook Lanczos with full re-orthogonalisation in float64: returns Q (n x m'), T (m' x m'); stops at breakdown."""
    n = A.shape[-1]
    q = z / z.norm()
    Q = [q]
    alphas, betas = [], []
    for k in range(m):
        w = A @ Q[k]
        a = (Q[k] @ w).item()
        alphas.append(a)
        w = w - a * Q[k] - (betas[-1] * Q[k - 1] if k > 0 else 0)
        for _ in range(2):
            for qq in Q:
                w = w - (qq @ w) * qq
        b = w.norm().item()
        if k == m - 1 or b < 1e-12 * max(1.0, abs(a)):
            break
        betas.append(b)
        Q.append(w / b)
    mm = len(alphas)
    T = torch.diag(torch.tensor(alphas, dtype=torch.float64))
    for i, b in enumerate(betas[: mm - 1]):
        T[i, i + 1] = T[i + 1, i] = b
    return torch.stack(Q[:mm], -1), T


def cg_rate(lmin, lmax):
    k = lmax / lmin
    return (math.sqrt(k) - 1) / (math.sqrt(k) + 1)
