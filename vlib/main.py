import argparse
import os
import sys


def main():
    ap = argparse.ArgumentParser()
    ap.add_argument("pid")
    ap.add_argument("--tier", default=os.environ.get("VERIF_TIER", "quick"), choices=["quick", "thorough"])
    ap.add_argument("--replay")
    ap.add_argument("--jobs", type=int, default=int(os.environ.get("VERIF_JOBS", "16")))
    ap.add_argument("--filter", default=None, help="regex on the JSON of a case (debugging; evidence not written)")
    ap.add_argument("--max-report", type=int, default=20)
    a = ap.parse_args()
    sys.path.insert(0, os.path.dirname(os.path.dirname(os.path.abspath(__file__))))
    from . import core, env

    rc = core.main_check(a.pid.upper(), a.tier, a.jobs, env.SEED, replay=a.replay, filt=a.filter,
                         max_report=a.max_report)
    sys.exit(rc)


if __name__ == "__main__":
    main()
