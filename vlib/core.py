"""Runner: deterministic case enumeration -> sharded execution on the real code -> findings -> evidence.

A property module (props/cXX.py) exposes

    ID, TITLE, RULE (str), TECHNIQUE (str)
    cases(tier, seed) -> list of JSON-serialisable case dicts, in canonical (simplest first) order
    run(case)         -> result dict (see `result()`), executed inside `env.case_sandbox`
    bounds(tier)      -> dict describing the completed bound (goes to evidence)

`run` drives the real implementation and the reference model for ONE root-to-leaf trace (a
construction followed by a sequence of actions) and returns the verdict for that trace together
with the number of implementation transitions executed and the canonical keys of the states it
materialised.
"""
import hashlib
import json
import os
import re
import signal
import sys
import time
import traceback
from concurrent.futures import ProcessPoolExecutor

from . import env

OK, OOD, UNSUP, VIOL = "OK", "OUT_OF_DOMAIN", "EXPLICIT_UNSUPPORTED", "VIOLATION"


def result(verdict=OK, kind=None, exc=None, msg=None, feat=None, keys=(), trans=1, nontrivial=True, ratio=None,
           detail=None, sub=None):
    """sub: optional list of per-step results when one case bundles several checked transitions."""
    return {
        "verdict": verdict, "kind": kind, "exc": exc, "msg": (msg or "")[:400], "feat": feat or {},
        "keys": list(keys), "trans": trans, "nontrivial": bool(nontrivial), "ratio": ratio, "detail": detail,
        "sub": sub,
    }


def case_hash(case):
    return hashlib.sha1(json.dumps(case, sort_keys=True, default=str).encode()).hexdigest()[:16]


def case_seed(case, seed):
    return int(hashlib.sha1((str(seed) + case_hash(case)).encode()).hexdigest()[:8], 16)


class CaseTimeout(Exception):
    pass


def _alarm(signum, frame):
    raise CaseTimeout()


_PROP = {}


def load_prop(pid):
    if pid not in _PROP:
        import importlib

        _PROP[pid] = importlib.import_module(f"props.{pid.lower()}")
    return _PROP[pid]


def run_one(pid, case, seed, timeout=1800):
    """Execute one case in this process. Harness errors propagate as verdict 'HARNESS'."""
    prop = load_prop(pid)
    signal.signal(signal.SIGALRM, _alarm)
    signal.alarm(timeout)
    try:
        with env.case_sandbox(case_seed(case, seed)):
            res = prop.run(case)
    except CaseTimeout:
        res = result(VIOL, kind="hang", msg=f"case exceeded {timeout}s")
    except BaseException as e:  # noqa: B902 - a bug in /verif, never a property violation
        if isinstance(e, KeyboardInterrupt):
            raise
        res = result("HARNESS", kind="harness", exc=type(e).__name__, msg=str(e), detail=traceback.format_exc()[-3000:])
    finally:
        signal.alarm(0)
    leak = env.settings_diff()
    if leak:  # belt and braces; case_sandbox restores, so this means restore itself failed
        env.settings_restore()
    return res


def _run_chunk(args):
    pid, chunk, seed, timeout = args
    out = []
    for idx, case in chunk:
        out.append((idx, run_one(pid, case, seed, timeout)))
    return out


# ------------------------------------------------------------------------------------------------
# known findings
# ------------------------------------------------------------------------------------------------
def load_known(pid):
    path = os.path.join(env.VERIF, "known_findings.jsonl")
    out = []
    if os.path.exists(path):
        for line in open(path):
            line = line.strip()
            if not line or line.startswith("#"):
                continue
            rec = json.loads(line)
            if rec.get("property") == pid and rec.get("status") == "open":
                out.append(rec)
    return out


def matches(rec, case, res):
    m = rec.get("match", {})
    if "kind" in m and (res.get("kind") not in m["kind"] if isinstance(m["kind"], list) else res.get("kind") != m["kind"]):
        return False
    if "exc" in m and (res.get("exc") not in m["exc"] if isinstance(m["exc"], list) else res.get("exc") != m["exc"]):
        return False
    if "msg_re" in m and not re.search(m["msg_re"], res.get("msg") or ""):
        return False
    for k, v in m.get("feat", {}).items():
        have = res.get("feat", {}).get(k)
        if isinstance(v, list):
            if have not in v:
                return False
        elif have != v:
            return False
    for k, v in m.get("feat_re", {}).items():
        if not re.search(v, str(res.get("feat", {}).get(k))):
            return False
    if "case_re" in m and not re.search(m["case_re"], json.dumps(case, sort_keys=True, default=str)):
        return False
    return True


# ------------------------------------------------------------------------------------------------
def flatten(case, res):
    """A case may bundle several checked steps: yield (case, step-result) pairs."""
    if res.get("sub"):
        for s in res["sub"]:
            yield case, s
    else:
        yield case, res


def main_check(pid, tier, jobs, seed, replay=None, max_report=20, filt=None):
    t0 = time.time()
    prop = load_prop(pid)
    if replay:
        return main_replay(pid, replay, seed)
    cases = list(prop.cases(tier, seed))
    if filt:
        cases = [c for c in cases if re.search(filt, json.dumps(c, sort_keys=True, default=str))]
    n = len(cases)
    timeout = getattr(prop, "CASE_TIMEOUT", 1800)
    chunk_size = max(1, min(getattr(prop, "CHUNK", 200), (n + jobs * 4 - 1) // (jobs * 4)))
    indexed = list(enumerate(cases))
    # round-robin style chunks keep expensive neighbours apart
    chunks = [indexed[i:i + chunk_size] for i in range(0, n, chunk_size)]
    results = [None] * n
    if jobs <= 1:
        for ch in chunks:
            for idx, r in _run_chunk((pid, ch, seed, timeout)):
                results[idx] = r
    else:
        with ProcessPoolExecutor(max_workers=jobs) as ex:
            for part in ex.map(_run_chunk, [(pid, ch, seed, timeout) for ch in chunks]):
                for idx, r in part:
                    results[idx] = r

    known = load_known(pid)
    counts = {OK: 0, OOD: 0, UNSUP: 0, VIOL: 0, "HARNESS": 0}
    keys, ntkeys = set(), set()
    transitions = 0
    worst = 0.0
    known_hits = {}
    new_viol = []
    harness = []
    unsup_cells = {}
    steps = 0
    for case, res in zip(cases, results):
        transitions += res.get("trans", 1)
        for k in res.get("keys", ()):
            keys.add(k)
        for c, r in flatten(case, res):
            steps += 1
            counts[r["verdict"]] = counts.get(r["verdict"], 0) + 1
            for k in r.get("keys", ()):
                keys.add(k)
                if r.get("nontrivial") and r["verdict"] in (OK, VIOL):
                    ntkeys.add(k)
            if r.get("ratio") is not None and r["verdict"] == OK:
                worst = max(worst, r["ratio"])
                if os.environ.get("VERIF_TOPRATIO") and r["ratio"] > float(os.environ["VERIF_TOPRATIO"]):
                    print("RATIO", round(r["ratio"], 3), json.dumps(r.get("feat"), default=str)[:300])
            if r["verdict"] == UNSUP:
                sig = f"{r.get('exc')}: {(r.get('msg') or '')[:80]}"
                unsup_cells[sig] = unsup_cells.get(sig, 0) + 1
            if r["verdict"] == "HARNESS":
                harness.append((c, r))
            if r["verdict"] == VIOL:
                hit = next((k for k in known if matches(k, c, r)), None)
                if hit is not None:
                    known_hits.setdefault(hit["id"], [hit, 0, (c, r)])[1] += 1
                else:
                    new_viol.append((c, r))
    if not keys:  # engines that do not emit keys: the case hash is the state
        keys = {case_hash(c) for c in cases}
        ntkeys = {case_hash(c) for c, r in zip(cases, results) if r.get("nontrivial") and r["verdict"] in (OK, VIOL)}

    if os.environ.get("VERIF_DUMP"):
        with open(os.environ["VERIF_DUMP"], "w") as f:
            for c, r in new_viol:
                f.write(json.dumps({"case": c, "r": {k: r[k] for k in ("kind", "exc", "msg", "feat")}}, default=str) + "\n")
    rc = 0
    for hid, (hit, cnt, (c, r)) in sorted(known_hits.items()):
        print(f"KNOWN-FINDING: property={pid} {hit['what']} [{hid}] ({cnt} cases)")
    rdir = os.path.join(env.VERIF, "replays", pid)
    # group new violations by (kind, exc, msg-prefix, feat) so the report stays readable
    groups = {}
    for c, r in new_viol:
        g = (r.get("kind"), r.get("exc"), re.sub(r"[0-9.e+-]+", "#", (r.get("msg") or ""))[:60],
             json.dumps(r.get("feat"), sort_keys=True))
        groups.setdefault(g, []).append((c, r))
    if new_viol:
        os.makedirs(rdir, exist_ok=True)
        rc = 1
        shown = 0
        for g, items in sorted(groups.items(), key=lambda kv: -len(kv[1])):
            c, r = items[0]
            if shown >= max_report:
                continue
            # determinism guard: the same case must fail the same way again before it is reported
            r2 = None
            for cc, rr in flatten(c, run_one(pid, c, seed, timeout)):
                if rr["verdict"] == VIOL and rr.get("kind") == r.get("kind") and rr.get("feat") == r.get("feat"):
                    r2 = rr
                    break
            path = os.path.join(rdir, case_hash(c) + ".json")
            with open(path, "w") as f:
                json.dump({"property": pid, "seed": seed, "case": c, "result": r, "group_size": len(items)}, f,
                          indent=1, default=str)
            if r2 is None:
                print(f"HARNESS-ERROR property={pid} non-reproducible violation replay={path}")
                rc = 2
                continue
            if shown < max_report:
                print(f"VIOLATION property={pid} replay={path}  # {len(items)} cases: kind={r.get('kind')} "
                      f"exc={r.get('exc')} msg={(r.get('msg') or '')[:140]!r} feat={r.get('feat')}")
                shown += 1
        if len(groups) > shown:
            print(f"... {len(groups) - shown} more violation groups not printed")
    for c, r in harness[:5]:
        print(f"HARNESS-ERROR property={pid} {r.get('exc')}: {r.get('msg')}\n{r.get('detail')}")
        print("case:", json.dumps(c, default=str)[:500])
    if harness:
        rc = 2

    wall = time.time() - t0
    samples = [{"case": c, "verdict": r["verdict"], "kind": r.get("kind")} for c, r in list(zip(cases, results))[:3]]
    mid = n // 2
    if n > 6:
        samples += [{"case": cases[mid], "verdict": results[mid]["verdict"]}, {"case": cases[-1], "verdict": results[-1]["verdict"]}]
    for hid, (hit, cnt, (c, r)) in list(sorted(known_hits.items()))[:5]:
        samples.append({"known_finding": hid, "case": c, "kind": r.get("kind"), "msg": r.get("msg")})
    for c, r in new_viol[:3]:
        samples.append({"violation": True, "case": c, "kind": r.get("kind"), "msg": r.get("msg")})
    evaluated = counts[OK] + counts[VIOL]
    ev = {
        "property_id": pid,
        "tier": tier,
        "seed": seed,
        "level": "model_checking",
        "coverage": {
            "states": len(keys),
            "transitions": transitions,
            "traces_validated_against_impl": n,
            "samples": samples,
            "evaluations": steps,
            "distinct_nontrivial": len(ntkeys),
            "rule": prop.RULE,
            "exhaustive": True,
            "verdicts": counts,
            "evaluated_against_reference": evaluated,
            "worst_tolerance_ratio": worst,
            "explicit_unsupported_cells": dict(sorted(unsup_cells.items(), key=lambda kv: -kv[1])[:40]),
            "known_findings_matched": {hid: v[1] for hid, v in known_hits.items()},
            "bounds": prop.bounds(tier),
            "repo": env.REPO,
            "explanation": getattr(prop, "EXPLANATION", ""),
        },
        "assumptions": getattr(prop, "ASSUMPTIONS", []),
        "wall_s": round(wall, 2),
        "violations": len(new_viol),
    }
    os.makedirs(os.path.join(env.VERIF, "evidence"), exist_ok=True)
    if not filt and env.REPO == "/repo":
        with open(os.path.join(env.VERIF, "evidence", f"{pid}.json"), "w") as f:
            json.dump(ev, f, indent=1, default=str)
    print(f"{pid} tier={tier} seed={seed}: traces={n} steps={steps} states={len(keys)} transitions={transitions} "
          f"distinct_nontrivial={len(ntkeys)} verdicts={counts} known={sum(v[1] for v in known_hits.values())} "
          f"new_violations={len(new_viol)} groups={len(groups)} worst_ratio={worst:.3g} wall={wall:.1f}s")
    return rc


def main_replay(pid, path, seed):
    rec = json.load(open(path))
    case = rec["case"]
    seed = rec.get("seed", seed)
    res = run_one(pid, case, seed, getattr(load_prop(pid), "CASE_TIMEOUT", 1800))
    known = load_known(pid)
    rc = 0
    for c, r in flatten(case, res):
        print(json.dumps({k: r[k] for k in ("verdict", "kind", "exc", "msg", "feat", "detail")}, default=str)[:3000])
        if r["verdict"] == VIOL:
            hit = next((k for k in known if matches(k, c, r)), None)
            if hit:
                print(f"KNOWN-FINDING: property={pid} {hit['what']} [{hit['id']}]")
            else:
                print(f"VIOLATION property={pid} replay={path}")
                rc = 1
        elif r["verdict"] == "HARNESS":
            rc = 2
    return rc
