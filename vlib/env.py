"""Process environment: which repo tree is explored, torch threading, settings ownership.

Imported first by every engine.  The library under exploration is imported from $VERIF_REPO
(default /repo): the working tree itself is what runs, nothing is copied or cached.
"""
import contextlib
import os
import sys
import warnings

REPO = os.path.realpath(os.environ.get("VERIF_REPO", "/repo"))
VERIF = os.path.dirname(os.path.dirname(os.path.abspath(__file__)))
if REPO not in sys.path:
    sys.path.insert(0, REPO)
sys.dont_write_bytecode = True
os.environ.setdefault("LINEAR_OPERATOR_VERIF", "1")

import torch  # noqa: E402

torch.set_num_threads(1)
try:
    torch.set_num_interop_threads(1)
except RuntimeError:
    pass

import linear_operator  # noqa: E402
from linear_operator import beta_features, settings  # noqa: E402

_lo_file = os.path.realpath(linear_operator.__file__)
if not _lo_file.startswith(REPO + os.sep):
    raise RuntimeError(f"linear_operator imported from {_lo_file}, expected under {REPO}")
LO_DIR = os.path.dirname(_lo_file)

SEED = int(os.environ.get("VERIF_SEED", "0"))

# ------------------------------------------------------------------------------------------------
# settings ownership: the harness never uses the library's own context managers (they are the
# subject of C17); it assigns class attributes directly and restores them in finally-blocks.
# ------------------------------------------------------------------------------------------------
_SLOT_NAMES = ("_state", "_global_value", "_global_float_value", "_global_double_value", "_global_half_value")


def settings_classes():
    out = []
    for mod in (settings, beta_features):
        for name in sorted(vars(mod)):
            obj = vars(mod)[name]
            if isinstance(obj, type) and issubclass(
                obj, (settings._feature_flag, settings._value_context, settings._dtype_value_context)
            ):
                if obj in (settings._feature_flag, settings._value_context, settings._dtype_value_context):
                    continue
                out.append((f"{mod.__name__.split('.')[-1]}.{name}", obj))
    return out


_SETTINGS_CLASSES = settings_classes()


def settings_snapshot():
    snap = {}
    for qual, cls in _SETTINGS_CLASSES:
        for slot in _SLOT_NAMES:
            if hasattr(cls, slot):
                snap[(qual, slot)] = getattr(cls, slot)
    return snap


PRISTINE = settings_snapshot()


def settings_restore(snap=None):
    snap = PRISTINE if snap is None else snap
    for qual, cls in _SETTINGS_CLASSES:
        for slot in _SLOT_NAMES:
            if (qual, slot) in snap:
                setattr(cls, slot, snap[(qual, slot)])
    settings.deterministic_probes.probe_vectors = None


def settings_diff(snap=None):
    snap = PRISTINE if snap is None else snap
    now = settings_snapshot()
    return {f"{k[0]}.{k[1]}": (repr(snap[k]), repr(now[k])) for k in snap if now[k] != snap[k]}


_SET_ALIASES = {
    "max_cholesky_size": (settings.max_cholesky_size, "_global_value"),
    "cg_tolerance": (settings.cg_tolerance, "_global_value"),
    "max_cg_iterations": (settings.max_cg_iterations, "_global_value"),
    "max_lanczos_quadrature_iterations": (settings.max_lanczos_quadrature_iterations, "_global_value"),
    "max_preconditioner_size": (settings.max_preconditioner_size, "_global_value"),
    "max_root_decomposition_size": (settings.max_root_decomposition_size, "_global_value"),
    "min_preconditioning_size": (settings.min_preconditioning_size, "_global_value"),
    "minres_tolerance": (settings.minres_tolerance, "_global_value"),
    "num_contour_quadrature": (settings.num_contour_quadrature, "_global_value"),
    "num_trace_samples": (settings.num_trace_samples, "_global_value"),
    "preconditioner_tolerance": (settings.preconditioner_tolerance, "_global_value"),
    "tridiagonal_jitter": (settings.tridiagonal_jitter, "_global_value"),
    "cholesky_max_tries": (settings.cholesky_max_tries, "_global_value"),
    "linalg_symeig": (settings._linalg_dtype_symeig, "_global_value"),
    "linalg_cholesky": (settings._linalg_dtype_cholesky, "_global_value"),
    "cholesky_jitter_float": (settings.cholesky_jitter, "_global_float_value"),
    "cholesky_jitter_double": (settings.cholesky_jitter, "_global_double_value"),
    "fast_solves": (settings._fast_solves, "_state"),
    "fast_log_prob": (settings._fast_log_prob, "_state"),
    "fast_root": (settings._fast_covar_root_decomposition, "_state"),
    "memory_efficient": (settings.memory_efficient, "_state"),
    "skip_logdet_forward": (settings.skip_logdet_forward, "_state"),
    "terminate_cg_by_size": (settings.terminate_cg_by_size, "_state"),
    "ciq_samples": (settings.ciq_samples, "_state"),
    "debug": (settings.debug, "_state"),
    "deterministic_probes": (settings.deterministic_probes, "_state"),
    "trace_mode": (settings.trace_mode, "_state"),
    "use_toeplitz": (settings.use_toeplitz, "_state"),
    "verbose_linalg": (settings.verbose_linalg, "_state"),
}

_DTYPES = {"float32": torch.float32, "float64": torch.float64, "f32": torch.float32, "f64": torch.float64}


def set_settings(cfg):
    """Direct class-attribute assignment of a {alias: value} dict (values JSON-friendly)."""
    for k, v in (cfg or {}).items():
        cls, slot = _SET_ALIASES[k]
        if k.startswith("linalg_") and isinstance(v, str):
            v = _DTYPES[v]
        setattr(cls, slot, v)


@contextlib.contextmanager
def with_settings(cfg):
    snap = settings_snapshot()
    try:
        set_settings(cfg)
        yield
    finally:
        settings_restore(snap)


@contextlib.contextmanager
def case_sandbox(case_seed):
    """Everything global that a case may disturb is snapshotted here and restored afterwards."""
    default_dtype = torch.get_default_dtype()
    settings_restore(PRISTINE)
    torch.manual_seed(case_seed)
    with warnings.catch_warnings(record=True) as wlist:
        warnings.simplefilter("always")
        try:
            yield wlist
        finally:
            torch.set_default_dtype(default_dtype)
            settings_restore(PRISTINE)


# ------------------------------------------------------------------------------------------------
# which numerical routine ran: the library logs it through settings.verbose_linalg; capture the
# messages instead of printing them
# ------------------------------------------------------------------------------------------------
import logging  # noqa: E402

LINALG_LOG = []


class _Capture(logging.Handler):
    def emit(self, record):
        LINALG_LOG.append(record.getMessage())


settings.verbose_linalg.logger.handlers = [_Capture()]
settings.verbose_linalg.logger.propagate = False


def linalg_paths():
    """set of routine names logged since the last call"""
    out = set()
    for m in LINALG_LOG:
        for name in ("CG", "Cholesky", "Lanczos", "MINRES", "Pivoted Cholesky", "symeig", "eigvalsh", "SVD", "QR"):
            if f"Running {name}" in m or f"Running torch.linalg.{name}" in m:
                out.add(name)
    del LINALG_LOG[:]
    return out
