"""Comparators and the exception classifier shared by all property engines."""
import linecache
import os
import re
import traceback

import torch

from . import env
from .core import OK, OOD, UNSUP, VIOL, result


class Raised:
    """Outcome of a call that raised."""

    def __init__(self, exc):
        self.exc = exc
        self.type = type(exc).__name__
        self.msg = str(exc)
        tb = traceback.extract_tb(exc.__traceback__)
        self.frames = [(f.filename, f.name, f.lineno, (f.line or "")) for f in tb]

    def __repr__(self):
        return f"Raised({self.type}: {self.msg[:100]})"

    def where(self, k=3):
        return " <- ".join(f"{os.path.basename(fn)}:{ln}:{name}" for fn, name, ln, _ in self.frames[-k:][::-1])


def call(fn, *a, **k):
    try:
        return fn(*a, **k)
    except Exception as e:  # noqa: B902
        return Raised(e)


_INTERNAL_MSG = re.compile(r"__getitem__ failed|This is a bug|this is a bug")


def is_explicit_unsupported(r, func_pattern):
    """Mechanical rule of DESIGN 1.3: (a) innermost frame is a `raise` statement inside linear_operator,
    (b) in a function that belongs to the requested operation, (c) not an internal-consistency message."""
    if not isinstance(r, Raised) or not r.frames:
        return False
    fn, name, ln, line = r.frames[-1]
    if not os.path.realpath(fn).startswith(env.LO_DIR + os.sep):
        return False
    if not line.strip().startswith("raise"):
        # multi-line raise statements: look upwards for the `raise` keyword of this statement
        ok = False
        for back in range(1, 8):
            prev = linecache.getline(fn, ln - back).strip()
            if prev.startswith("raise"):
                ok = True
                break
            if prev.endswith(":") or prev == "":
                break
        if not ok:
            return False
    if _INTERNAL_MSG.search(r.msg):
        return False
    if r.type in ("AssertionError",):
        return False
    return re.fullmatch(func_pattern, name) is not None


def eps(dtype):
    return torch.finfo(dtype).eps


def compare(got, ref, c=200.0, inner=1, exact=False, what="value", check_dtype=False, scale_extra=1.0):
    """Returns None when equal within tolerance, else (kind, msg); and the ratio observed/allowed."""
    if not torch.is_tensor(got):
        return ("type", f"{what}: expected a Tensor, got {type(got).__name__}"), None
    if tuple(got.shape) != tuple(ref.shape):
        return ("shape", f"{what}: shape {tuple(got.shape)} != reference {tuple(ref.shape)}"), None
    if check_dtype and got.dtype != ref.dtype:
        return ("dtype", f"{what}: dtype {got.dtype} != {ref.dtype}"), None
    if got.numel() == 0:
        return None, 0.0
    g = got.detach().to(torch.float64)
    r = ref.detach().to(torch.float64)
    if torch.equal(g, r):
        return None, 0.0
    if not torch.isfinite(g).all() and torch.isfinite(r).all():
        return ("nan", f"{what}: non-finite entries in result"), None
    d = (g - r).abs().max().item()
    if exact:
        return ("value", f"{what}: max abs diff {d:.3g} (exact comparison)"), None
    dt = got.dtype if got.dtype in (torch.float32, torch.float64, torch.float16) else torch.float32
    if ref.dtype == torch.float32:
        dt = torch.float32 if dt != torch.float16 else dt
    scale = max(1.0, r.abs().max().item()) * max(1, inner) * scale_extra
    allowed = c * eps(dt) * scale
    ratio = d / allowed
    if ratio > 1.0:
        return ("value", f"{what}: max abs diff {d:.3g} > allowed {allowed:.3g} (ref max {r.abs().max().item():.3g})"), ratio
    return None, ratio


def dense_of(x):
    """Densify an implementation result (operator or tensor) - goes through the library's to_dense."""
    if torch.is_tensor(x):
        return x
    return x.to_dense()
