"""C18 - Gaussian sampling uses a true square root of the covariance."""
import sys
import warnings

import torch

from vlib import env, recipes as R
from vlib.core import OK, OOD, UNSUP, VIOL, result
from vlib.oracles import Raised, call, is_explicit_unsupported

ID = "C18"
TITLE = "Gaussian sampling uses a true square root of the covariance"
TECHNIQUE = "exact identification of the sampler as a linear map: torch.randn is replaced (only for draws made inside zero_mean_mvn_samples) by one-hot noise, one run per noise coordinate, exhaustively over (PSD operator term x batch x number of draws x settings); the stacked responses F must satisfy F^T F == block-diagonal covariance"
RULE = (
    "all PD catalogue terms and PD-preserving depth-2 nestings (every class with a specialised sampler and the generic root-based one) x batch {(),(2,)} x "
    "k in {1,2,3} x settings {default, max_cholesky_size 0, fast covar_root_decomposition off, ciq_samples on}; for each case the sampler is run once per "
    "noise coordinate (one-hot), plus zero noise and one random combination (linearity); F^T F must equal A on every (draw, batch member) block and vanish "
    "across draws and batch members; non-trivial = n >= 2; distinct = (case)"
)
ASSUMPTIONS = ["the sampler is a fixed linear map of the standard normal draws it makes inside zero_mean_mvn_samples (verified per case by zero-noise and superposition runs)",
               "Lanczos-root samplers (max_cholesky_size 0): equality asserted when the eigenvalues are distinct, up to the documented tridiagonal jitter; CIQ cells use minres_tolerance 1e-12"]
CHUNK = 6
CASE_TIMEOUT = 3600
DT = torch.float64


def lattice(tier):
    base = [{}, {"max_cholesky_size": 0}, {"fast_root": False}, {"ciq_samples": True, "minres_tolerance": 1e-12},
            {"max_cholesky_size": 3}, {"max_cholesky_size": 5}]  # between component size (2, 3) and operator size (6, 9)
    if tier == "thorough":
        base += [{"max_cholesky_size": 0, "fast_root": False}, {"ciq_samples": True, "minres_tolerance": 1e-12, "max_cholesky_size": 0}]
    return base


def psd_singular_terms():
    """catalogue terms that are PSD by construction but may be singular (interpolated, root, kernel operators): sampling is still defined"""
    out = []
    for name, t in R.catalogue(3, include_rect=False).items():
        (r, c), b = R.shape_of_safe(t)
        if b is not None and r == c and b.psd and not b.pd and "Zero" not in R.heads_of(t):
            out.append((name, t))
    return out


def _fresh(case, batch):
    """catalogue terms through the shared recipes; the local "CholFail" term is a dense rank-deficient PSD matrix of scale 1e12, for
    which the Cholesky factorization fails at every jitter level and the library falls back to the eigendecomposition root"""
    if case["term"][0] != "CholFail":
        return R.fresh(case["term"], dtype=DT, batch=batch, seed=env.SEED)
    import types
    from linear_operator import operators as O
    n, r = case["term"][1]["n"], case["term"][1]["r"]
    g = torch.Generator().manual_seed(4242 + env.SEED)
    B = torch.randint(-3, 4, (*batch, n, r), generator=g).to(DT)
    B = B + torch.eye(n, dtype=DT)[:, :r]  # full column rank r
    A = 1e12 * (B @ B.mT)
    return types.SimpleNamespace(op=O.DenseLinearOperator(A.clone()), dense=A, pd=False, psd=True), None


def cases(tier, seed):
    out = []
    for n, r in ((3, 2), (4, 2), (3, 1)):
        for b in ([], [2]):
            for k in (1, 2):
                out.append({"name": f"CholFail{n}r{r}", "term": ["CholFail", {"n": n, "r": r}], "batch": b, "k": k, "cfg": {}, "singular": True})
    for name, term in psd_singular_terms():
        for b in ([], [2]):
            for k in (1, 2):
                out.append({"name": name, "term": term, "batch": b, "k": k, "cfg": {}, "singular": True})
    for name, term, kind in R.pd_terms(tier):
        if kind != "pd":
            continue
        depth1 = "(" not in name
        for b in [[], [2]] + ([[1]] if depth1 and name in ("DensePSD", "AddedDiag", "PsdSum", "BlockDiag") else []):
            for k in ((1, 2, 3) if depth1 else (2,)):
                for cfg in lattice(tier):
                    if not depth1 and (tier == "quick" and (b or cfg)):
                        continue
                    if cfg.get("ciq_samples") and not depth1:
                        continue  # (k = 1 matters: singleton dimensions are where squeeze-type slips show)
                    out.append({"name": name, "term": term, "batch": b, "k": k, "cfg": cfg})
        # the root the sampler finds in the cache was put there by an earlier explicit request for a direct method (this is also
        # the root the library falls back to when the Cholesky factorization fails): the draws must still have covariance A
        if depth1:
            for b in ([], [2]):
                for prior in ("symeig", "diagonalization", "svd"):
                    out.append({"name": name, "term": term, "batch": b, "k": 2, "cfg": {}, "prior": prior})
    return out


def bounds(tier):
    return {"n": 3, "terms": sum(1 for t in R.pd_terms(tier) if t[2] == "pd"), "batches": "(),(2,)", "k": [1, 2, 3], "settings_points": len(lattice(tier))}


class NoisePatch:
    """replaces torch.randn for calls made directly inside a function called zero_mean_mvn_samples"""

    def __init__(self, mode, hot=None, combo=None):
        self.mode, self.hot, self.combo = mode, hot, combo
        self.calls = []
        self.offset = 0
        self.orig = torch.randn

    def __enter__(self):
        def fake(*size, **kw):
            caller = sys._getframe(1).f_code.co_name
            if caller != "zero_mean_mvn_samples":
                return self.orig(*size, **kw)
            shape = tuple(size[0]) if len(size) == 1 and isinstance(size[0], (tuple, list, torch.Size)) else tuple(size)
            numel = int(torch.Size(shape).numel())
            dtype = kw.get("dtype", torch.get_default_dtype())
            start = self.offset
            self.offset += numel
            self.calls.append((shape, numel))
            if self.mode == "record":
                return torch.zeros(shape, dtype=dtype)
            if self.mode == "onehot":
                out = torch.zeros(numel, dtype=dtype)
                if start <= self.hot < start + numel:
                    out[self.hot - start] = 1.0
                return out.reshape(shape)
            out = self.combo[start:start + numel].to(dtype)
            return out.reshape(shape)
        torch.randn = fake
        return self

    def __exit__(self, *a):
        torch.randn = self.orig


def run(case):
    batch = tuple(case["batch"])
    name, k = case["name"], case["k"]
    cfgs = case["cfg"]
    prior = case.get("prior")
    key = f"{name}|{batch}|{k}|{sorted(cfgs.items())}" + (f"|prior={prior}" if prior else "")
    probe = call(_fresh, case, batch)
    if isinstance(probe, Raised):
        return result(OOD, feat={"name": name}, keys=[key], msg=probe.msg)
    A = probe[0].dense.detach().to(DT)
    n = A.shape[-1]
    opb = tuple(A.shape[:-2])
    nb = max(1, int(torch.Size(opb).numel()))
    heads = R.heads_of(case["term"]) if case["term"][0] != "CholFail" else {"Dense"}
    feat = {"name": name, "head": case["term"][0], "nb": len(opb), "k": k, "cfg": ",".join(f"{a}={b}" for a, b in sorted(cfgs.items())),
            "cg_forced": cfgs.get("max_cholesky_size") is not None and cfgs["max_cholesky_size"] < n, "ciq": bool(cfgs.get("ciq_samples")), "br": "BatchRepeat" in heads}
    ev = torch.linalg.eigvalsh(A)
    distinct = bool(((ev[..., 1:] - ev[..., :-1]) > 1e-3 * ev[..., -1:]).all()) if n > 1 else True
    feat["distinct"] = distinct
    cond = (ev[..., -1] / ev[..., 0]).max().item()
    if case.get("singular") or not cond > 0:
        cond = 1e4  # singular PSD covariance (default settings, direct roots): a fixed absolute-relative tolerance of 1e-5 * scale * n
    scale = A.abs().amax().item()

    def sample(mode, hot=None, combo=None):
        env.settings_restore()
        b, _ = _fresh(case, batch)
        env.set_settings(dict(cfgs, verbose_linalg=True))
        env.linalg_paths()
        torch.manual_seed(99)
        with warnings.catch_warnings():
            warnings.simplefilter("ignore")
            if prior:
                pr = call(b.op.root_decomposition, method=prior)
                if isinstance(pr, Raised):
                    prior_failed.append(pr)
            with NoisePatch(mode, hot, combo) as p:
                out = call(b.op.zero_mean_mvn_samples, k)
        return out, p, env.linalg_paths()

    prior_failed = []
    out0, p0, paths = sample("record")
    if prior:
        feat["prior"] = prior
        if prior_failed:
            return result(OOD, feat=feat, keys=[key], msg=f"root_decomposition(method={prior!r}) is not available here: {prior_failed[0].msg}")
    if isinstance(out0, Raised):
        if is_explicit_unsupported(out0, r"zero_mean_mvn_samples|root_decomposition|_root_decomposition|cholesky|_cholesky"):
            return result(UNSUP, exc=out0.type, msg=out0.msg, feat=feat, keys=[key])
        return result(VIOL, kind="internal-error", exc=out0.type, msg=f"{out0.msg} @ {out0.where()}", feat=feat, keys=[key])
    exp_shape = (k, *opb, n)
    if tuple(out0.shape) != exp_shape:
        return result(VIOL, kind="shape", msg=f"samples of shape {tuple(out0.shape)}, documented (k, *batch, n) = {exp_shape}", feat=feat, keys=[key])
    if out0.abs().max().item() != 0:
        return result(VIOL, kind="affine", msg=f"zero noise gives non-zero samples (max {out0.abs().max().item():.3g}): not a linear map of the noise drawn in zero_mean_mvn_samples", feat=feat, keys=[key])
    Dn = p0.offset
    if Dn == 0:
        return result(VIOL, kind="no-noise", msg="no standard normal noise was drawn inside zero_mean_mvn_samples", feat=feat, keys=[key])
    direct_ciq = feat["ciq"] and len(p0.calls) == 1 and p0.calls[0][0] == (*opb, n, k) and "MINRES" in paths
    if direct_ciq:
        # The contour-integral sampler places its quadrature nodes from a Lanczos run started at the noise itself, so it
        # is not a fixed linear map; it computes A^{1/2} z (the symmetric root) for the noise z it drew: check that directly
        w, V = torch.linalg.eigh(A)
        sqrtA = (V * w.sqrt().unsqueeze(-2)) @ V.mT
        worst = 0.0
        tol = 1e-4 * scale ** 0.5 * cond
        for trial in range(3):
            combo = torch.randn(Dn, generator=torch.Generator().manual_seed(30 + trial), dtype=DT)
            oc, _, _ = sample("combo", combo=combo)
            if isinstance(oc, Raised):
                return result(VIOL, kind="internal-error", exc=oc.type, msg=f"{oc.msg} @ {oc.where()}", feat=feat, keys=[key])
            z = combo.reshape(*opb, n, k)
            want = (sqrtA @ z).permute(-1, *range(len(opb) + 1))
            d = (oc - want).abs().max().item()
            worst = max(worst, d / tol)
            if d > tol:
                return result(VIOL, kind="covariance", msg=f"CIQ samples differ from A^(1/2) z by {d:.3g} (tol {tol:.3g})", feat=feat, keys=[key], ratio=d / tol)
        return result(OK, feat=feat, keys=[key], ratio=worst, trans=5)
    rows = []
    for i in range(Dn):
        oi, pi, _ = sample("onehot", hot=i)
        if isinstance(oi, Raised) or pi.offset != Dn:
            return result(VIOL, kind="nondeterministic", msg=f"noise coordinate {i}: {'raised ' + oi.msg if isinstance(oi, Raised) else 'different number of noise draws'}", feat=feat, keys=[key])
        rows.append(oi.reshape(-1))
    F = torch.stack(rows)  # D x (k * nb * n)
    # superposition check
    combo = torch.randn(Dn, generator=torch.Generator().manual_seed(3), dtype=DT)
    oc, _, _ = sample("combo", combo=combo)
    if isinstance(oc, Raised) or (oc.reshape(-1) - combo @ F).abs().max().item() > 1e-8 * max(1.0, (combo @ F).abs().max().item()):
        if feat["ciq"] and "MINRES" in paths:
            # a specialised sampler delegating to the contour-integral sampler of an inner operator (checked directly at depth 1)
            return result(OK, feat=dict(feat, inner_ciq=True), keys=[key], nontrivial=False)
        return result(VIOL, kind="nonlinear", msg="samples are not a linear function of the noise (superposition fails)", feat=feat, keys=[key])
    C = (F.mT @ F).reshape(k, nb, n, k, nb, n)
    if feat["ciq"] and "MINRES" in paths:
        tol = 1e-4 * scale * cond
    elif "Lanczos" in paths:
        tol = 20 * env.settings.tridiagonal_jitter.value() * scale * cond * n
    else:
        tol = 1e-9 * scale * cond * n
    Af = A.reshape(nb, n, n)
    worst = 0.0
    for ki in range(k):
        for bi in range(nb):
            for kj in range(k):
                for bj in range(nb):
                    blk = C[ki, bi, :, kj, bj, :]
                    if ki == kj and bi == bj:
                        if "Lanczos" in paths and not distinct:
                            # rank-deficient Krylov space: only the compression property holds (checked in C06 / C09)
                            continue
                        d = (blk - Af[bi]).abs().max().item()
                        what = f"covariance of draw {ki}, batch member {bi} differs from A by {d:.3g}"
                    else:
                        d = blk.abs().max().item()
                        what = f"draws ({ki},{bi}) and ({kj},{bj}) are correlated ({d:.3g})"
                    worst = max(worst, d / tol)
                    if d > tol:
                        return result(VIOL, kind="covariance", msg=f"{what} (tol {tol:.3g}, noise dim {Dn}, paths {sorted(paths)})", feat=feat, keys=[key], ratio=d / tol)
    return result(OK, feat=feat, keys=[key], ratio=worst, trans=Dn + 2)
