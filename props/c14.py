"""C14 - copies, conversions and rebuilds denote the same matrix with the right dtype."""
import torch

from vlib import env, recipes as R
from vlib.core import OK, OOD, UNSUP, VIOL, result
from vlib.oracles import Raised, call, compare, is_explicit_unsupported

ID = "C14"
TITLE = "Copies, conversions and rebuilds denote the same matrix with the right dtype"
TECHNIQUE = "exhaustive enumeration of (operator term x batch x source dtype x target dtype x torch default dtype x conversion) cells on the real operators; each result is compared structurally (class tree, flags, integer data, storage aliasing, requires_grad) and by value/dtype of every tensor it returns"
RULE = (
    "every catalogue term and depth-2 nesting (thorough) x batch {(),(2,)} x src dtype x dst dtype x default dtype x conversion in "
    "{clone, detach, to(dtype), to(tensor), type, double, float, cpu, evaluate_kernel, representation rebuild, requires_grad_}; "
    "per result: class tree, non-tensor flags, integer/bool tensors, dense value, dtype of to_dense/matmul/diagonal/getitem/"
    "solve/logdet results, storage disjointness (clone), requires_grad placement; distinct = (term,batch,dtypes,conversion,observation)"
)
ASSUMPTIONS = ["CPU only (cpu() is the identity move)", "integer value alphabet: conversions between float32/float64 are exact"]
CHUNK = 10
DTS = {"f32": torch.float32, "f64": torch.float64}
CONVS = ["clone", "detach", "to_dtype", "to_tensor", "to_kw", "type", "double", "float", "cpu", "evaluate_kernel", "rebuild", "requires_grad_", "to_device"]


def cases(tier, seed):
    out = []
    items = list(R.catalogue(3).items())
    if tier == "thorough":
        items += list(R.nestings(3).items())
    for name, term in items:
        depth1 = "(" not in name
        for b in ([], [2]) + (([1],) if tier == "thorough" else ()):  # a singleton batch dimension (thorough)
            for src in ("f64", "f32"):
                for dflt in ("f32", "f64"):
                    if not depth1 and (src, dflt) not in (("f64", "f32"),):
                        continue
                    out.append({"name": name, "term": term, "batch": b, "src": src, "default": dflt})
    return out


def bounds(tier):
    return {"n": 3, "batches": "(),(2,)", "src/dst dtypes": "float32,float64 (all 4 pairs)", "default dtypes": "float32,float64",
            "conversions": CONVS, "terms": "catalogue (+ depth-2 nestings in thorough, src=f64/default=f32)"}


def walk(op, path="r"):
    """yield (path, owner, kind, value) for every constructor argument, recursively."""
    for i, a in enumerate(getattr(op, "_args", ())):
        p = f"{path}.{i}"
        if torch.is_tensor(a):
            yield p, op, "tensor", a
        elif hasattr(a, "_args"):
            yield p, op, "op", a
            yield from walk(a, p)
        else:
            yield p, op, "other", a
    for k, a in sorted(getattr(op, "_kwargs", {}).items()):
        p = f"{path}.{k}"
        if torch.is_tensor(a):
            yield p, op, "tensor", a
        elif hasattr(a, "_args"):
            yield p, op, "op", a
            yield from walk(a, p)
        else:
            yield p, op, "other", a


def tree(op):
    if torch.is_tensor(op):
        return "T"
    subs = [tree(a) for a in list(getattr(op, "_args", ())) + [v for _, v in sorted(getattr(op, "_kwargs", {}).items())] if hasattr(a, "_args")]
    return type(op).__name__ + ("(" + ",".join(subs) + ")" if subs else "")


FLAG_ATTRS = ("upper", "cat_dim", "batch_repeat", "num_outputs_per_input", "diag_shape", "m", "n")


def flags(op):
    out = {}
    for p, owner, kind, v in [("r", None, "op", op)] + list(walk(op)):
        if kind == "op":
            for a in FLAG_ATTRS:
                if hasattr(v, a) and not callable(getattr(v, a)) and not torch.is_tensor(getattr(v, a)):
                    out[f"{p}:{a}"] = repr(getattr(v, a))
        elif kind == "other" and not isinstance(v, (torch.dtype, torch.device)) and not callable(v) and v is not None:
            out[p] = repr(dict(v)) if isinstance(v, dict) else repr(v)
    return out


def int_tensors(op):
    return {p: v for p, _, kind, v in walk(op) if kind == "tensor" and not v.is_floating_point()}


def float_tensors(op):
    return {p: v for p, _, kind, v in walk(op) if kind == "tensor" and v.is_floating_point()}


def run(case):
    batch = tuple(case["batch"])
    src = DTS[case["src"]]
    head = case["term"][0]
    name = case["name"]
    built = call(R.fresh, case["term"], dtype=src, batch=batch, seed=env.SEED)
    keyp = f"{name}|{batch}|{case['src']}|{case['default']}"
    if isinstance(built, Raised):
        return result(OOD, feat={"head": head, "name": name}, keys=[keyp + "|construct"], msg=built.msg)
    b, ctx = built
    op = b.op
    dense = b.dense
    heads = R.heads_of(case["term"])
    is_perm = "Perm" in heads or "TransposePerm" in heads
    base = {"head": head, "name": name, "src": case["src"], "default": case["default"], "has_zero": "Zero" in heads, "perm": is_perm,
            "has_keops": "KeOps" in heads, "br_rect": R.has_rect_batch_repeat(case["term"])}
    torch.set_default_dtype(DTS[case["default"]])
    subs = []
    r, c = dense.shape[-2:]

    def add(conv, obs, verdict, **kw):
        feat = dict(base, conv=conv, obs=obs, dst=kw.pop("dst", None))
        subs.append(result(verdict, feat=feat, keys=[f"{keyp}|{conv}|{feat['dst']}|{obs}"], **kw))

    def check_result(conv, res, dst, same_class=True, dst_name=None):
        """all observations on one conversion result"""
        ref = dense.to(dst)
        k = dict(dst=dst_name)
        if isinstance(res, Raised):
            if is_explicit_unsupported(res, r"clone|detach|to|type|double|float|cpu|evaluate_kernel|requires_grad_|_set_requires_grad"):
                add(conv, "call", UNSUP, exc=res.type, msg=res.msg, **k)
            else:
                add(conv, "call", VIOL, kind="internal-error", exc=res.type, msg=f"{conv}: {res.msg} @ {res.where()}", **k)
            return
        if torch.is_tensor(res):
            add(conv, "class", VIOL, kind="type", msg=f"{conv} returned a Tensor", **k)
            return
        # structure
        if same_class and tree(res) != tree(op):
            add(conv, "class", VIOL, kind="structure", msg=f"{conv}: class tree {tree(res)} != {tree(op)}", **k)
        else:
            add(conv, "class", OK, **k)
        if same_class:
            f0, f1 = flags(op), flags(res)
            if f0 != f1:
                diff = {p: (f0.get(p), f1.get(p)) for p in set(f0) | set(f1) if f0.get(p) != f1.get(p)}
                add(conv, "flags", VIOL, kind="structure", msg=f"{conv}: non-tensor arguments changed: {diff}", **k)
            else:
                add(conv, "flags", OK, **k)
            i0, i1 = int_tensors(op), call(int_tensors, res)
            bad = [p for p in i0 if p not in i1 or i1[p].dtype != i0[p].dtype or i1[p].shape != i0[p].shape or not torch.equal(i1[p], i0[p])]
            if bad:
                add(conv, "int-data", VIOL, kind="dtype", msg=f"{conv}: integer/bool tensors changed: " + ", ".join(f"{p}: {i0[p].dtype}->{i1[p].dtype if p in i1 else None}" for p in bad), **k)
            elif i0:
                add(conv, "int-data", OK, **k)
        # reported dtype
        rd = call(lambda: res.dtype)
        if isinstance(rd, Raised) or rd != dst:
            add(conv, "dtype-attr", VIOL, kind="dtype", msg=f"{conv}: result.dtype is {rd}, expected {dst}", **k)
        else:
            add(conv, "dtype-attr", OK, **k)
        # every tensor the result returns
        x = torch.ones(c, 2, dtype=dst)
        probes = [("to_dense", lambda: res.to_dense(), lambda: ref), ("matmul", lambda: res @ x, lambda: ref @ x)]
        if r == c:
            probes.append(("diagonal", lambda: res.diagonal(), lambda: ref.diagonal(dim1=-2, dim2=-1)))
        probes.append(("getitem-row", lambda: res[..., 0, :], lambda: ref[..., 0, :]))
        probes.append(("getitem-elem", lambda: res[..., 0, 0], lambda: ref[..., 0, 0]))
        probes.append(("mT-to_dense", lambda: res.mT.to_dense(), lambda: ref.mT))
        if b.pd and r == c and "(" not in name:  # (solve/logdet of nestings are the subject of C04/C05)
            probes.append(("solve", lambda: res.solve(x), lambda: torch.linalg.solve(ref, x)))
            probes.append(("logdet", lambda: res.logdet(), lambda: torch.logdet(ref)))
        for obs, fi, fr in probes:
            got = call(fi)
            if isinstance(got, Raised) and obs == "diagonal" and is_explicit_unsupported(got, r"_diagonal|diagonal"):
                add(conv, obs, UNSUP, exc=got.type, msg=got.msg, **k)
                continue
            if not isinstance(got, Raised) and not torch.is_tensor(got) and hasattr(got, "to_dense"):
                gd = got.dtype
                got = call(got.to_dense) if gd == dst else got
            if isinstance(got, Raised):
                add(conv, obs, VIOL, kind="internal-error", exc=got.type, msg=f"{conv} then {obs}: {got.msg} @ {got.where()}", **k)
                continue
            want = fr()
            if torch.is_tensor(got) and got.dtype != dst:
                add(conv, obs, VIOL, kind="dtype", msg=f"{conv} then {obs}: returned {got.dtype}, operator dtype is {dst}", **k)
                continue
            if not torch.is_tensor(got):
                add(conv, obs, VIOL, kind="dtype", msg=f"{conv} then {obs}: returned a {type(got).__name__} of dtype {got.dtype}, operator dtype is {dst}", **k)
                continue
            # data that was float32 at any point is only float32-accurate
            coarse = (torch.finfo(torch.float32).eps / torch.finfo(dst).eps) if src == torch.float32 else 1.0
            bad, ratio = compare(got, want, inner=c, what=f"{conv} then {obs}", c=(1e4 if obs in ("solve", "logdet") else 300) * coarse)
            if bad:
                add(conv, obs, VIOL, kind=bad[0], msg=bad[1], ratio=ratio, **k)
            else:
                add(conv, obs, OK, ratio=ratio, **k)

    other = {torch.float32: torch.float64, torch.float64: torch.float32}[src]
    for dst, dn in ((src, "same"), (other, "other")):
        check_result("to_dtype", call(lambda: op.to(dst)), dst, dst_name=dn)
        check_result("to_kw", call(lambda: op.to(dtype=dst)), dst, dst_name=dn)
        check_result("to_tensor", call(lambda: op.to(torch.zeros(1, dtype=dst))), dst, dst_name=dn)
        check_result("type", call(lambda: R.fresh(case["term"], dtype=src, batch=batch, seed=env.SEED)[0].op.type(dst)), dst, dst_name=dn)
    check_result("double", call(lambda: op.double()), torch.float64, dst_name="f64")
    check_result("float", call(lambda: op.float()), torch.float32, dst_name="f32")
    check_result("cpu", call(lambda: op.cpu()), src)
    check_result("to_device", call(lambda: op.to(torch.device("cpu"))), src)
    check_result("detach", call(lambda: op.detach()), src)
    check_result("rebuild", call(lambda: op.representation_tree()(*op.representation())), src)
    check_result("evaluate_kernel", call(lambda: op.evaluate_kernel()), src, same_class=False)
    # clone: additionally no shared storage
    cl = call(lambda: op.clone())
    check_result("clone", cl, src)
    if not isinstance(cl, Raised) and not torch.is_tensor(cl):
        f0, f1 = float_tensors(op), call(float_tensors, cl)
        if not isinstance(f1, Raised):
            shared = [p for p in f0 if p in f1 and f0[p].numel() and f0[p].untyped_storage().data_ptr() == f1[p].untyped_storage().data_ptr()]
            i0, i1 = int_tensors(op), int_tensors(cl)
            shared += [p for p in i0 if p in i1 and i0[p].numel() and i0[p].untyped_storage().data_ptr() == i1[p].untyped_storage().data_ptr()]
            if shared:
                add("clone", "storage", VIOL, kind="aliasing", msg=f"clone shares storage with the original for {shared}")
            else:
                add("clone", "storage", OK)
    # requires_grad_ on a fresh copy: exactly the floating tensors
    fresh = call(lambda: R.fresh(case["term"], dtype=src, batch=batch, seed=env.SEED)[0].op)
    if not isinstance(fresh, Raised):
        rg = call(lambda: fresh.requires_grad_(True))
        if isinstance(rg, Raised):
            add("requires_grad_", "call", VIOL, kind="internal-error", exc=rg.type, msg=f"requires_grad_: {rg.msg} @ {rg.where()}")
        else:
            wrong = [p for p, _, kind, v in walk(fresh) if kind == "tensor" and v.requires_grad != v.is_floating_point()]
            if wrong:
                add("requires_grad_", "placement", VIOL, kind="structure", msg=f"requires_grad_(True): wrong requires_grad on {wrong}")
            else:
                add("requires_grad_", "placement", OK)
            vals = call(lambda: fresh.to_dense())
            bad, _ = (("internal-error", vals.msg), None) if isinstance(vals, Raised) else compare(vals, dense, inner=c, what="requires_grad_ then to_dense")
            if bad:
                add("requires_grad_", "value", VIOL, kind=bad[0], msg=bad[1], exc=vals.type if isinstance(vals, Raised) else None)
            else:
                add("requires_grad_", "value", OK)
    return result(sub=subs, trans=len(subs) + 1)
