"""C05 - logdet and inverse quadratic forms equal the dense values or their quadrature."""
import itertools
import warnings

import torch

from vlib import env, recipes as R
from vlib.core import OK, OOD, UNSUP, VIOL, result
from vlib.oracles import Raised, call, is_explicit_unsupported

ID = "C05"
TITLE = "logdet and inverse quadratic forms equal the dense values or their quadrature"
TECHNIQUE = "exhaustive enumeration of (PD operator term x batch x rhs kind x reduce_inv_quad x logdet x settings lattice) on the real logdet / inv_quad / inv_quad_logdet; deterministic paths are compared with dense values, the stochastic path with the exact Gauss-Lanczos quadrature evaluated (by dense eigendecomposition) for the very probe vectors the run drew, which are read back from the autograd node"
RULE = (
    "all PD catalogue terms and PD-preserving depth-2 nestings x batch {(),(2,)} x rhs {none, vector, matrix} x reduce_inv_quad x logdet x settings "
    "{default, max_cholesky_size 0 (stochastic), + fast log_prob off, + num_trace_samples 1/5, + preconditioner (size 2), + max_lanczos_quadrature_iterations "
    "n / 2n, + skip_logdet_forward}; oracle: dense logdet / tr(R^T A^-1 R) on deterministic paths; log|P| + (n/m) sum_i u_i^T log(P^-1/2 A P^-1/2) u_i for the "
    "recorded probes on the stochastic path (1e-9), documented output shapes everywhere; non-trivial = n>=2; distinct = (case, query)"
)
ASSUMPTIONS = ["integer PD alphabet (distinct eigenvalues with probability one, cond <= ~1e2)", "probe vectors are read from the InvQuadLogdet autograd node (ctx.probe_vectors); the preconditioner P from op._preconditioner()[1]"]
CHUNK = 12
CASE_TIMEOUT = 3600
DT = torch.float64

import linear_operator  # noqa: E402


def lattice(tier):
    base = [{}, {"max_cholesky_size": 0}, {"max_cholesky_size": 0, "fast_log_prob": False},
            {"max_cholesky_size": 0, "num_trace_samples": 1}, {"max_cholesky_size": 0, "num_trace_samples": 5},
            {"max_cholesky_size": 0, "min_preconditioning_size": 0, "max_preconditioner_size": 2},
            {"max_cholesky_size": 0, "skip_logdet_forward": True},
            # thresholds between the size of a Kronecker / block component (2, 3) and of the whole operator (6, 9)
            {"max_cholesky_size": 3}, {"max_cholesky_size": 5}]
    if tier == "thorough":
        base += [{"max_cholesky_size": 0, "max_lanczos_quadrature_iterations": 40}, {"max_cholesky_size": 0, "cg_tolerance": 1e-4},
                 {"max_cholesky_size": 0, "min_preconditioning_size": 0, "max_preconditioner_size": 1, "num_trace_samples": 3},
                 {"max_cholesky_size": 0, "memory_efficient": True}, {"fast_log_prob": False}]
    return base


def cases(tier, seed):
    out = []
    for name, term, kind in R.pd_terms(tier):
        if kind != "pd":
            continue
        depth1 = "(" not in name
        for b in ([], [2]) + (([1],) if (tier == "thorough" and "(" not in name) else ()):  # a singleton batch dimension (thorough)
            for cfg in lattice(tier):
                if not depth1 and tier == "quick" and cfg not in ({}, {"max_cholesky_size": 0}):
                    continue
                out.append({"name": name, "term": term, "batch": b, "cfg": cfg})
    # sizes at which an iterative solve with default tolerances is visibly inexact (n = 3 systems converge exactly in 3 CG steps), at the
    # settings points where a deterministic path is mandated
    d24 = ["Dense", {"n": 24, "m": 24, "kind": "psd_spread"}]
    for nm, term in (("DenseSpread24", d24), ("AddedDiag24", ["AddedDiag", {}, d24, ["Diag", {"n": 24}]]), ("ConstMul24", ["ConstMul", {"c": "pos"}, d24])):
        for b in ([], [2]):
            for cfg in ({}, {"max_cholesky_size": 0, "fast_log_prob": False}, {"max_cholesky_size": 30, "fast_log_prob": False}):
                out.append({"name": nm, "term": term, "batch": b, "cfg": cfg})
    return out


def bounds(tier):
    return {"n": 3, "terms": sum(1 for t in R.pd_terms(tier) if t[2] == "pd"), "batches": "(),(2,)", "settings_points": len(lattice(tier)),
            "queries": ["logdet()", "torch.logdet", "inv_quad(vec|mat, reduce)", "inv_quad_logdet(rhs in {none,vec,mat}, logdet, reduce)", "linear_operator.inv_quad_logdet"]}


def find_node(fn, depth=0):
    if fn is None or depth > 8:
        return None
    if hasattr(fn, "probe_vectors"):
        return fn
    for nf, _ in fn.next_functions:
        r = find_node(nf, depth + 1)
        if r is not None:
            return r
    return None


def _t(shape, tag):
    g = torch.Generator()
    g.manual_seed(abs(hash(tag)) % (2**31))
    t = torch.randint(-2, 3, tuple(shape), generator=g).to(DT)
    return t + (t.abs().sum() == 0).to(DT)


def run(case):
    batch = tuple(case["batch"])
    name = case["name"]
    cfgs = case["cfg"]
    keyp = f"{name}|{batch}|{sorted(cfgs.items())}"
    probe = call(R.fresh, case["term"], dtype=DT, batch=batch, seed=env.SEED)
    if isinstance(probe, Raised):
        return result(OOD, feat={"name": name}, keys=[keyp + "|construct"], msg=probe.msg)
    dense = probe[0].dense.detach().to(DT)
    n = dense.shape[-1]
    opb = tuple(dense.shape[:-2])
    cond = torch.linalg.cond(dense).max().item()
    Ainv = torch.linalg.inv(dense)
    ld_ref = torch.logdet(dense)
    heads = R.heads_of(case["term"])
    base = {"name": name, "head": case["term"][0], "nb": len(opb), "cfg": ",".join(f"{k}={v}" for k, v in sorted(cfgs.items())), "cg_forced": cfgs.get("max_cholesky_size") is not None and cfgs["max_cholesky_size"] < n,
            "skip": bool(cfgs.get("skip_logdet_forward")), "br": "BatchRepeat" in heads}
    subs = []

    def fresh_op():
        env.settings_restore()
        b, ctx = R.fresh(case["term"], dtype=DT, batch=batch, seed=env.SEED, grad="all")
        env.set_settings(dict(cfgs, verbose_linalg=True))
        env.linalg_paths()
        return b.op

    def check_logdet(label, got, feat, key, op):
        paths = env.linalg_paths()
        node = find_node(got.grad_fn) if torch.is_tensor(got) else None
        stochastic = node is not None  # the logdet term came out of the stochastic Lanczos quadrature function
        feat = dict(feat, path="stochastic" if stochastic else "deterministic")
        if tuple(got.shape) != tuple(ld_ref.shape):
            return result(VIOL, kind="shape", msg=f"{label}: logdet shape {tuple(got.shape)} != {tuple(ld_ref.shape)}", feat=feat, keys=[key])
        if cfgs.get("skip_logdet_forward") and (stochastic or "CG" in paths):
            return result(OK, feat=feat, keys=[key], nontrivial=False)  # value documented as improper
        g = got.detach()
        if not torch.isfinite(g).all():
            return result(VIOL, kind="nan", msg=f"{label}: logdet is not finite ({sorted(paths)})", feat=feat, keys=[key])
        if not stochastic:
            tol = 1e-9 * cond * max(1.0, ld_ref.abs().max().item()) * n
            if "Lanczos" in paths:
                tol = max(tol, 10 * env.settings.tridiagonal_jitter.value() * n * cond)
            err = (g - ld_ref).abs().max().item()
            if err > tol:
                return result(VIOL, kind="value", msg=f"{label}: logdet differs from the dense value by {err:.3g} (deterministic path {sorted(paths)})", feat=feat, keys=[key], ratio=err / tol)
            return result(OK, feat=feat, keys=[key], ratio=err / tol)
        z = node.probe_vectors.detach()
        if z.shape[-2] != n or tuple(z.shape[:-2]) != tuple(opb):
            # the quadrature ran on an inner operator of a wrapper (block / repeated / masked ...): the inner classes are
            # checked directly at depth 1; here only shape and finiteness of the combined value are asserted
            return result(OK, feat=dict(feat, path="stochastic-inner"), keys=[key], nontrivial=False)
        m = z.shape[-1]
        want_m = cfgs.get("num_trace_samples", 10)
        if m != want_m:
            return result(VIOL, kind="probes", msg=f"{label}: {m} probe vectors drawn, num_trace_samples is {want_m}", feat=feat, keys=[key])
        pre = call(op._preconditioner)
        P = None if isinstance(pre, Raised) or pre[1] is None else pre[1].to_dense().detach()
        Pd = torch.eye(n, dtype=DT).expand_as(dense) if P is None else P
        w, V = torch.linalg.eigh(Pd)
        Pmh = (V * w.pow(-0.5).unsqueeze(-2)) @ V.mT
        At = Pmh @ dense @ Pmh
        wa, Va = torch.linalg.eigh(0.5 * (At + At.mT))
        u = Pmh @ z
        u = u / u.norm(dim=-2, keepdim=True)
        quad = (((Va.mT @ u) ** 2) * wa.log().unsqueeze(-1)).sum(-2)
        est = torch.logdet(Pd) + n / m * quad.sum(-1)
        err = (est - g).abs().max().item()
        tol = 1e-9 * cond * n * max(1.0, ld_ref.abs().max().item())
        if err > tol:
            return result(VIOL, kind="quadrature", msg=f"{label}: stochastic logdet differs from the Gauss-Lanczos quadrature of its own {m} probes by {err:.3g} (preconditioner: {P is not None})", feat=dict(feat, precond=P is not None), keys=[key], ratio=err / tol)
        return result(OK, feat=dict(feat, precond=P is not None), keys=[key], ratio=err / tol)

    def check_iq(label, got, rhs, reduce, feat, key):
        Rm = rhs if rhs.dim() > 1 else rhs.unsqueeze(-1)
        ref = (Rm * (Ainv @ Rm)).sum(-2)
        if reduce:
            ref = ref.sum(-1)
        if tuple(got.shape) != tuple(ref.shape):
            return result(VIOL, kind="shape", msg=f"{label}: inv_quad shape {tuple(got.shape)} != documented {tuple(ref.shape)}", feat=feat, keys=[key])
        err = (got.detach() - ref).abs().max().item()
        tol = 1e-5 * cond * max(1.0, ref.abs().max().item())
        if not torch.isfinite(got).all() or err > tol:
            return result(VIOL, kind="value", msg=f"{label}: inv_quad differs from the dense value by {err:.3g}", feat=feat, keys=[key], ratio=err / tol)
        return result(OK, feat=feat, keys=[key], ratio=err / tol)

    def guard(label, fn, feat, key):
        op = fresh_op()
        with warnings.catch_warnings():
            warnings.simplefilter("ignore")
            got = call(fn, op)
        if isinstance(got, Raised):
            if is_explicit_unsupported(got, r"logdet|_logdet|inv_quad|inv_quad_logdet|_solve|_preconditioner"):
                subs.append(result(UNSUP, exc=got.type, msg=got.msg, feat=feat, keys=[key]))
            else:
                subs.append(result(VIOL, kind="internal-error", exc=got.type, msg=f"{label}: {got.msg} @ {got.where()}", feat=feat, keys=[key]))
            return None, op
        return got, op

    # logdet entry points
    for entry, fn in (("logdet", lambda o: o.logdet()), ("torch.logdet", lambda o: torch.logdet(o))):
        f = dict(base, q=entry)
        key = f"{keyp}|{entry}"
        got, op = guard(entry, fn, f, key)
        if got is not None:
            subs.append(check_logdet(entry, got, f, key, op))
    # inv_quad
    vec_ok = not opb
    rhs_kinds = {"mat": _t((*opb, n, 2), "iq")}
    if vec_ok:
        rhs_kinds["vec"] = _t((n,), "iqv")
    for rk, rhs in rhs_kinds.items():
        for reduce in (True, False):
            if rk == "vec" and not reduce:
                continue  # the unreduced shape for a 1-d right-hand side is not documented consistently
            f = dict(base, q="inv_quad", rhs=rk, reduce=reduce)
            key = f"{keyp}|inv_quad|{rk}|{reduce}"
            got, op = guard("inv_quad", lambda o: o.inv_quad(rhs, reduce_inv_quad=reduce), f, key)
            if got is not None:
                env.linalg_paths()
                subs.append(check_iq(f"inv_quad[{rk},reduce={reduce}]", got, rhs, reduce, f, key))
            for logdet in (True, False):
                f = dict(base, q="inv_quad_logdet", rhs=rk, reduce=reduce, logdet=logdet)
                key = f"{keyp}|iql|{rk}|{reduce}|{logdet}"
                got, op = guard("inv_quad_logdet", lambda o: o.inv_quad_logdet(rhs, logdet=logdet, reduce_inv_quad=reduce), f, key)
                if got is None:
                    continue
                iq, ld = got
                if logdet:
                    r1 = check_logdet(f"inv_quad_logdet[{rk}]", ld, f, key + "|ld", op)
                    subs.append(r1)
                subs.append(check_iq(f"inv_quad_logdet[{rk},reduce={reduce},logdet={logdet}]", iq, rhs, reduce, f, key + "|iq"))
    f = dict(base, q="inv_quad_logdet", rhs="none", logdet=True)
    key = f"{keyp}|iql|none"
    got, op = guard("inv_quad_logdet(None, logdet=True)", lambda o: o.inv_quad_logdet(None, logdet=True), f, key)
    if got is not None:
        subs.append(check_logdet("inv_quad_logdet[none]", got[1], f, key, op))
    f = dict(base, q="lo.inv_quad_logdet", rhs="mat", logdet=True, reduce=True)
    key = f"{keyp}|lo.iql"
    rhs = rhs_kinds["mat"]
    got, op = guard("linear_operator.inv_quad_logdet", lambda o: linear_operator.inv_quad_logdet(o, rhs, logdet=True), f, key)
    if got is not None:
        subs.append(check_logdet("linear_operator.inv_quad_logdet", got[1], f, key + "|ld", op))
        subs.append(check_iq("linear_operator.inv_quad_logdet", got[0], rhs, True, f, key + "|iq"))
    return result(sub=subs, trans=len(subs) + 1)
