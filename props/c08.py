"""C08 - conjugate gradients converges to the solution and returns true Lanczos matrices."""
import itertools
import math
import warnings

import torch

from vlib import env, refalgos as RA
from vlib.core import OK, OOD, VIOL, result
from vlib.oracles import Raised, call

ID = "C08"
TITLE = "Conjugate gradients converges to the solution and returns true Lanczos matrices"
TECHNIQUE = "the CG loop explored as a transition system: every iteration-budget prefix 1..J of every run (deterministic, so budget j reproduces the j-th state) over an exhaustive product of spectrum family x size x condition x scale x batch x column mix x initial guess x preconditioner x dtype, with convergence-theory invariants checked on every prefix state and tridiagonals compared with a float64 reference Lanczos"
RULE = (
    "families {geometric, uniform, clustered} x n in {1,2,3,5,8,13,24,40(,64)} x cond {1e1,1e3,1e6} x scale {1e-4,1,1e4} x batch {(),(2,)} x "
    "column mixes (generic / zero / tiny-norm / huge-norm / eigenvector) x initial guess {none, zeros, random, exact} x preconditioner "
    "{none, Jacobi, exact inverse, low-rank+diag, argument-returning identity} x dtype; per case all budgets j = 1..J; invariants: A-norm error "
    "monotone and below max(2 rho^j, floor), warning/tolerance contract, zero columns, exact 2^k scaling, frozen columns, limit independent of the "
    "preconditioner, tridiagonal == reference Lanczos matrix (+ quadrature identity at full dimension), error contracts; non-trivial = n >= 2; "
    "distinct = (case, budget)"
)
ASSUMPTIONS = ["accuracy floor of the implementation (safe-division eps 1e-10): relative A-norm error 3e-4 in float64, max(3e-4, 30 cond eps) in float32 (calibrated: observed <= 3e-5 / 5e-6)",
               "tridiagonal comparison restricted to m <= 6 Lanczos steps and cond <= 1e3 (Lanczos coefficients are well conditioned there)"]
CHUNK = 40
CASE_TIMEOUT = 3600
DTS = {"f64": torch.float64, "f32": torch.float32}

from linear_operator.utils.linear_cg import linear_cg  # noqa: E402
from linear_operator.utils.warnings import NumericalWarning  # noqa: E402


def cases(tier, seed):
    out = []
    fams = ["geom", "unif", "clustered"]
    if tier == "quick":
        ns, scales, inits, batches = [1, 2, 5, 13, 24], [1.0, 1e4], ["none", "random"], [[], [2]]
    else:
        ns, scales, inits, batches = [1, 2, 3, 5, 8, 13, 24, 40, 64], [1e-4, 1.0, 1e4], ["none", "zeros", "random", "exact"], [[], [2], [2, 3]]
    for fam, n, cond, scale, b, cols, init, pre, dt in itertools.product(
            fams, ns, [10.0, 1e3, 1e6], scales, batches, ["generic", "mixed"], inits, ["none", "jacobi", "exact", "lowrank", "alias"], ["f64", "f32"]):
        if dt == "f32" and (cond > 1e3 or scale != 1.0 or pre in ("lowrank",)):
            continue
        if tier == "quick" and dt == "f32" and (b or init != "none"):
            continue
        if len(b) == 2 and (n > 8 or cols == "mixed" or init not in ("none",) or pre not in ("none", "jacobi")):
            continue
        out.append({"k": "conv", "fam": fam, "n": n, "cond": cond, "scale": scale, "b": b, "cols": cols, "init": init, "pre": pre, "dt": dt})
    for fam, n, cond, b, pre, ntri in itertools.product(fams + ["repeated"], [2, 3, 5, 6] + ([8, 13] if tier == "thorough" else []), [10.0, 1e3], [[], [2]], ["none", "jacobi", "exact", "lowrank"], [1, 2]):
        out.append({"k": "tridiag", "fam": fam, "n": n, "cond": cond, "b": b, "pre": pre, "ntri": ntri, "dt": "f64"})
        # Lanczos processes of different length running together: one column (an eigenvector) or one batch member (a multiple of
        # the identity) breaks down at the first step while the others keep going
        if n >= 3 and cond == 10.0:
            out.append({"k": "tridiag", "fam": fam, "n": n, "cond": cond, "b": b, "pre": pre, "ntri": ntri, "dt": "f64", "hetero": "column"})
            if b:
                out.append({"k": "tridiag", "fam": fam, "n": n, "cond": cond, "b": b, "pre": pre, "ntri": ntri, "dt": "f64", "hetero": "member"})
    for n in (3, 8):
        for what in ("nan", "limits", "tensor_closure", "vector_rhs", "bad_closure"):
            out.append({"k": "contract", "n": n, "what": what})
    for fam, n, tol in itertools.product(fams, [5, 13, 24] + ([40] if tier == "thorough" else []), [1.0, 1e-2, 1e-4]):
        for budget in ("ample", "short"):
            out.append({"k": "warn", "fam": fam, "n": n, "cond": 1e3, "tol": tol, "budget": budget})
            # the stopping test is on the true residual whatever the scale of the system and of the preconditioner
            for pre, scale in (("jacobi", 1.0), ("jacobi", 1e4), ("small", 1.0), ("large", 1.0), ("none", 1e4), ("exact", 1e4)):
                out.append({"k": "warn", "fam": fam, "n": n, "cond": 1e3, "tol": tol, "budget": budget, "pre": pre, "scale": scale})
    return out


def bounds(tier):
    return {"n": "1..24 (quick) / 1..64 (thorough)", "cond": [10, 1e3, 1e6], "scale": "1,1e4 (quick) / 1e-4,1,1e4 (thorough)", "budgets": "j = 1..min(2n+4, 40) for every case",
            "batches": "(),(2,) [+ (2,3) thorough]", "preconditioners": ["none", "jacobi", "exact", "lowrank+diag", "alias (returns its argument)"]}


def make_pre(kind, A, tag):
    """returns (closure, dense P^{-1}) for a (batched) SPD matrix A"""
    n = A.shape[-1]
    eye = torch.eye(n, dtype=A.dtype)
    if kind == "none":
        return None, eye.expand_as(A)
    if kind == "alias":
        return (lambda v: v), eye.expand_as(A)
    if kind == "jacobi":
        d = A.diagonal(dim1=-2, dim2=-1)
        Pinv = torch.diag_embed(1.0 / d)
    elif kind == "exact":
        Pinv = torch.linalg.inv(A.double()).to(A.dtype)
        Pinv = 0.5 * (Pinv + Pinv.mT)
    elif kind == "lowrank":
        k = max(1, n // 3)
        evals, evecs = torch.linalg.eigh(A.double())
        L = evecs[..., -k:] * evals[..., None, -k:].sqrt()
        dmean = evals[..., : n - k].mean(-1) if n - k > 0 else evals.mean(-1)
        P = L @ L.mT + dmean[..., None, None] * torch.eye(n, dtype=torch.float64)
        Pinv = torch.linalg.inv(P).to(A.dtype)
        Pinv = 0.5 * (Pinv + Pinv.mT)
    else:
        raise ValueError(kind)
    return (lambda v: Pinv @ v), Pinv


def anorm(A, d):
    return (d * (A @ d)).sum(-2).clamp_min(0).sqrt()


def run(case):
    k = case["k"]
    feat = {kk: (str(v) if isinstance(v, list) else v) for kk, v in case.items()}
    key = repr(sorted((a, str(b)) for a, b in case.items()))
    if k == "conv":
        return run_conv(case, feat, key)
    if k == "tridiag":
        return run_tridiag(case, feat, key)
    if k == "warn":
        return run_warn(case, feat, key)
    return run_contract(case, feat, key)


def cg(A, b, **kw):
    kw.setdefault("max_tridiag_iter", 1)
    with warnings.catch_warnings(record=True) as wl:
        warnings.simplefilter("always")
        out = call(linear_cg, A.matmul, b, **kw)
    warned = any(issubclass(w.category, NumericalWarning) for w in wl)
    return out, warned


def run_conv(case, feat, key):
    n, dt = case["n"], DTS[case["dt"]]
    b = tuple(case["b"])
    A64, lam = RA.spd(case["fam"], n, case["cond"], case["scale"], f"A{case['fam']}{n}", env.SEED, b)
    A = A64.to(dt)
    A64 = A.double()  # the system actually handed to CG
    ncols = 1 if case["cols"] == "generic" else 6
    B = torch.randn(*b, n, ncols, generator=RA.gen(f"B{n}{ncols}", env.SEED), dtype=torch.float64)
    evecs = torch.linalg.eigh(A64)[1]
    if case["cols"] == "mixed":
        B[..., 1] = 0.0  # zero column
        B[..., 2] *= 1e-12  # tiny norm (still above the is-zero threshold 1e-10? no: treated as zero by design)
        B[..., 2] *= 1e6  # -> 1e-6 norm
        B[..., 3] *= 1e8  # huge norm
        B[..., 4] = evecs[..., :, 0]  # an eigenvector: converges in one step, must then freeze
        B[..., 5] *= 1e-8  # tiny but well above the is-zero threshold (1e-10), below single-precision machine epsilon
    B = B.to(dt)
    B64 = B.double()
    Xs = torch.linalg.solve(A64, B64)
    init = case["init"]
    x0 = {"none": None, "zeros": torch.zeros_like(B), "random": torch.randn(B.shape, generator=RA.gen("x0", env.SEED), dtype=torch.float64).to(dt), "exact": Xs.to(dt)}[init]
    x0_64 = torch.zeros_like(B64) if x0 is None else x0.double()
    pre, Pinv = make_pre(case["pre"], A, "p")
    # convergence rate of the preconditioned system
    Pin64 = Pinv.double()
    if case["pre"] in ("none", "alias"):
        lmin, lmax = lam.min().item(), lam.max().item()
    else:
        ev = torch.linalg.eigvals(Pin64 @ A64).real
        lmin, lmax = ev.min().item(), ev.max().item()
    rho = RA.cg_rate(max(lmin, 1e-300), lmax)
    eps_dt = torch.finfo(dt).eps
    # accuracy floor implied by the safe-division threshold (p^T A p < 1e-10 with p = P^{-1} r): residual ~ 1e-5 / sqrt(mu)
    mu = torch.linalg.eigvalsh(0.5 * ((Pin64 @ A64 @ Pin64) + (Pin64 @ A64 @ Pin64).mT)).min().item()
    floor = max(3e-4, 30 * 1e-5 / math.sqrt(max(mu, 1e-300)))
    if dt == torch.float32:
        floor = max(floor, 30 * (lmax / max(lmin, 1e-300)) * eps_dt)
    e0 = anorm(A64, Xs - x0_64)  # (.., ncols)
    # (starting at the exact solution, errors are measured relative to the solution itself)
    scale0 = torch.maximum(e0, 1e-30 + anorm(A64, Xs) * (1.0 if init == "exact" else 1e-12))
    J = min(2 * n + 4, 40)
    subs = []
    prev = None
    prev_x = None
    nontriv = n >= 2
    states = []
    for j in range(1, J + 1):
        out, warned = cg(A, B, tolerance=0.0, max_iter=j, initial_guess=x0, preconditioner=pre)
        skey = f"{key}|j={j}"
        f = dict(feat, inv="prefix")
        if isinstance(out, Raised):
            subs.append(result(VIOL, kind="internal-error", exc=out.type, msg=f"budget {j}: {out.msg} @ {out.where()}", feat=f, keys=[skey], nontrivial=nontriv))
            break
        if tuple(out.shape) != tuple(B.shape) or out.dtype != dt:
            subs.append(result(VIOL, kind="shape", msg=f"budget {j}: result shape/dtype {tuple(out.shape)} {out.dtype}", feat=f, keys=[skey]))
            break
        if not torch.isfinite(out).all():
            subs.append(result(VIOL, kind="nan", msg=f"budget {j}: non-finite iterate (preconditioner={case['pre']})", feat=f, keys=[skey], nontrivial=nontriv))
            break
        e = anorm(A64, out.double() - Xs)
        rel = e / scale0
        bound = max(2 * rho ** j, floor)
        viol = None
        relc = rel if (case["cols"] == "generic" or init in ("none", "zeros")) else rel[..., :1]
        if init == "exact":
            bound = floor
        if (relc > bound * 1.05 + 1e-12).any():
            viol = ("bound", f"budget {j}: relative A-norm error {relc.max().item():.3g} > max(2 rho^j, floor) = {bound:.3g} (rho={rho:.4f}, cond={lmax / lmin:.3g})")
        if prev is not None and viol is None:
            inc = (e - prev) / scale0
            if (inc > 0.1 * floor).any():
                viol = ("monotone", f"budget {j}: A-norm error increased by {inc.max().item():.3g} (relative) from budget {j - 1}")
        if case["cols"] == "mixed" and viol is None and init in ("none", "zeros"):
            if out[..., 1].abs().max() != 0:
                viol = ("zero-column", f"budget {j}: zero right-hand side column gave a non-zero solution (init={init})")
        if viol is None and prev_x is not None:
            # freeze: a column whose relative residual was already far below the stop threshold must not move any more
            relres = (A64 @ prev_x.double() - B64).norm(dim=-2) / B64.norm(dim=-2).clamp_min(1e-300)
            frozen = (relres < 1e-12) & (B64.norm(dim=-2) > 0)
            if frozen.any() and dt == torch.float64:
                moved = ((out - prev_x).abs().amax(-2) > 0) & frozen
                if moved.any():
                    viol = ("frozen", f"budget {j}: a column with relative residual < 1e-12 at budget {j - 1} still changed by {(out - prev_x).abs().amax(-2)[moved].max().item():.3g}")
        states.append(skey)
        if viol:
            subs.append(result(VIOL, kind=viol[0], msg=viol[1], feat=f, keys=[skey], nontrivial=nontriv))
            break
        subs.append(result(OK, feat=f, keys=[skey], nontrivial=nontriv, ratio=float((relc / bound).max()) if init != "exact" else 0.0))
        prev, prev_x = e, out
    else:
        # exact power-of-two scaling of the right-hand side
        out1, _ = cg(A, B, tolerance=0.0, max_iter=min(J, n + 2), initial_guess=None, preconditioner=pre)
        out2, _ = cg(A, B * 8.0, tolerance=0.0, max_iter=min(J, n + 2), initial_guess=None, preconditioner=pre)
        f = dict(feat, inv="scaling")
        if isinstance(out1, Raised) or isinstance(out2, Raised) or not torch.equal(out1 * 8.0, out2):
            d = "raised" if isinstance(out1, Raised) or isinstance(out2, Raised) else f"{(out1 * 8.0 - out2).abs().max().item():.3g}"
            subs.append(result(VIOL, kind="scaling", msg=f"x(8 b) != 8 x(b) exactly (difference {d})", feat=f, keys=[key + "|scale"], nontrivial=nontriv))
        else:
            subs.append(result(OK, feat=f, keys=[key + "|scale"], nontrivial=nontriv))
        # the limit does not depend on the preconditioner
        if case["pre"] != "none" and init == "none":
            ref, _ = cg(A, B, tolerance=0.0, max_iter=J, preconditioner=None)
            f = dict(feat, inv="limit")
            if not isinstance(ref, Raised):
                d = anorm(A64, prev_x.double() - ref.double()) / scale0
                if (d > 2 * max(floor, 2 * rho ** J, 2 * RA.cg_rate(lam.min().item(), lam.max().item()) ** J)).any():
                    subs.append(result(VIOL, kind="limit", msg=f"preconditioned and plain CG limits differ by {d.max().item():.3g} (relative A-norm)", feat=f, keys=[key + "|limit"], nontrivial=nontriv))
                else:
                    subs.append(result(OK, feat=f, keys=[key + "|limit"], nontrivial=nontriv))
    return result(sub=subs, trans=len(subs) + 1)


def run_tridiag(case, feat, key):
    n = case["n"]
    b = tuple(case["b"])
    A, lam = RA.spd(case["fam"], n, case["cond"], 1.0, f"T{case['fam']}{n}", env.SEED, b)
    ntri = case["ntri"]
    B = torch.randn(*b, n, ntri + 1, generator=RA.gen(f"TB{n}", env.SEED), dtype=torch.float64)
    het = case.get("hetero")
    if het == "member":
        A = A.clone()
        A[-1] = 2.0 * torch.eye(n, dtype=torch.float64)
    pre, Pinv = make_pre(case["pre"], A, "p")
    if het == "column":
        # column 0 is an eigenvector of the preconditioned operator mapped back: P^{-1} A v = lambda v  <=>  breakdown at step 1
        Pf0 = Pinv.double()
        wv, Vv = torch.linalg.eig(Pf0 @ A)
        B = B.clone()
        B[..., :, 0] = (A @ Vv.real[..., :, :1]).squeeze(-1) if False else torch.linalg.solve(Pf0, Vv.real[..., :, 0].unsqueeze(-1)).squeeze(-1)
    subs = []
    # budgets up to n + 2: a Lanczos matrix of an n-dimensional operator has at most n steps whatever max_tridiag_iter / max_iter allow
    for m in range(1, n + 3):
        with warnings.catch_warnings():
            warnings.simplefilter("ignore")
            out = call(linear_cg, A.matmul, B, n_tridiag=ntri, tolerance=0.0, max_iter=max(m, 1) + 2, max_tridiag_iter=m, preconditioner=pre)
        f = dict(feat, m=m)
        skey = f"{key}|m={m}"
        if isinstance(out, Raised):
            subs.append(result(VIOL, kind="internal-error", exc=out.type, msg=f"m={m}: {out.msg} @ {out.where()}", feat=f, keys=[skey]))
            break
        x, T = out
        if tuple(T.shape[:-2]) != (ntri, *b) or T.shape[-1] != T.shape[-2] or T.shape[-1] > min(m, n):
            subs.append(result(VIOL, kind="shape", msg=f"m={m}: tridiagonal batch has shape {tuple(T.shape)}, expected ({ntri}, *{b}, <= {min(m, n)}, <= {min(m, n)})", feat=f, keys=[skey]))
            break
        bad = None
        worst = 0.0
        if not torch.isfinite(T).all():
            bad = "non-finite entries in the tridiagonal matrices"
        elif not torch.equal(T, T.mT):
            bad = "tridiagonal matrices are not symmetric"
        elif m > 2 and (torch.triu(T, 2).abs().max() > 0):
            bad = "entries outside the three diagonals"
        if bad is None:
            Af = A.reshape(-1, n, n)
            Pf = Pinv.double().reshape(-1, n, n)
            Bf = B.reshape(-1, n, ntri + 1)
            Tf = T.reshape(ntri, -1, T.shape[-2], T.shape[-1])
            for bi in range(Af.shape[0]):
                # preconditioned operator P^{-1/2} A P^{-1/2} and start vector P^{-1/2} b
                w, V = torch.linalg.eigh(Pf[bi])
                Ph = (V * w.clamp_min(0).sqrt()) @ V.mT
                At = Ph @ Af[bi] @ Ph
                At = 0.5 * (At + At.mT)
                ev = torch.linalg.eigvalsh(At)
                for c in range(ntri):
                    z = Ph @ Bf[bi, :, c]
                    Qr, Tr = RA.lanczos_ref(At, z, m)
                    mm = min(Tr.shape[-1], Tf.shape[-1])
                    # compare only the well-conditioned leading block (before the first small off-diagonal)
                    offd = Tr.diagonal(1).abs() if Tr.shape[-1] > 1 else torch.zeros(0)
                    small = (offd < 1e-2 * ev.max()).nonzero()
                    if small.numel():
                        mm = min(mm, int(small[0]) + 1)
                    mm = min(mm, 6)  # (CG-recurrence Lanczos coefficients drift from the re-orthogonalised reference later on)
                    # the Krylov space of this column has (numerically unambiguous) dimension >= mm_ref: its Lanczos matrix must be that large
                    mm_ref = min(Tr.shape[-1], 6)
                    if small.numel():
                        mm_ref = min(mm_ref, int(small[0]) + 1)
                    if Tf.shape[-1] < mm_ref:
                        bad = (f"tridiagonal truncated to {Tf.shape[-1]}x{Tf.shape[-1]} although the Lanczos process of batch {bi}, column {c} runs for "
                               f">= {mm_ref} steps within the budget {m}")
                        break
                    Tg = Tf[c, bi]
                    if Tg.shape[-1] < Tr.shape[-1] and Tg.shape[-1] < m and False:
                        pass
                    d = (Tg[:mm, :mm] - Tr[:mm, :mm]).abs().max().item()
                    tol = 1e-7 * case["cond"] * max(1.0, ev.max().item())
                    worst = max(worst, d / tol)
                    if d > tol:
                        bad = f"tridiagonal differs from the reference Lanczos matrix by {d:.3g} (tol {tol:.3g}) at batch {bi}, column {c}"
                        break
                    ritz = torch.linalg.eigvalsh(Tg[:mm, :mm])
                    if ritz.min() < ev.min() * (1 - 1e-5) - 1e-9 or ritz.max() > ev.max() * (1 + 1e-5) + 1e-9:
                        bad = f"Ritz values [{ritz.min().item():.6g}, {ritz.max().item():.6g}] outside the spectrum [{ev.min().item():.6g}, {ev.max().item():.6g}]"
                        break
                    if Tg.shape[-1] == n and case["fam"] != "repeated" and n <= 6 and case["cond"] <= 10:
                        zz = z / z.norm()
                        wT, VT = torch.linalg.eigh(Tg)
                        for fname, fn in (("id", lambda t: t), ("inv", lambda t: 1 / t), ("log", torch.log)):
                            lhs = (VT[0] ** 2 * fn(wT)).sum().item()
                            wa, Va = torch.linalg.eigh(At)
                            rhs = (((Va.mT @ zz) ** 2) * fn(wa)).sum().item()
                            if abs(lhs - rhs) > 1e-6 * max(1.0, abs(rhs)):
                                bad = f"e1^T {fname}(T) e1 = {lhs:.9g} but z^T {fname}(A) z = {rhs:.9g} at full dimension"
                                break
                    if bad:
                        break
                if bad:
                    break
        if bad:
            subs.append(result(VIOL, kind="tridiag", msg=f"m={m}: {bad}", feat=f, keys=[skey]))
            break
        subs.append(result(OK, feat=f, keys=[skey], ratio=worst))
    return result(sub=subs, trans=len(subs) + 1)


def run_warn(case, feat, key):
    """finishing without a NumericalWarning implies mean relative residual < tolerance"""
    n = case["n"]
    A, lam = RA.spd(case["fam"], n, case["cond"], case.get("scale", 1.0), f"W{case['fam']}{n}", env.SEED)
    B = torch.randn(n, 3, generator=RA.gen("WB", env.SEED), dtype=torch.float64)
    budget = 4 * n + 20 if case["budget"] == "ample" else max(2, n // 3)
    pk = case.get("pre", "none")
    if pk in ("small", "large"):  # a multiple of the identity is a valid SPD preconditioner: it changes nothing but internal scales
        cst = 1e-2 if pk == "small" else 1e2
        pre = lambda v: cst * v  # noqa: E731
    else:
        pre, _ = make_pre(pk, A, "w")
    out, warned = cg(A, B, tolerance=case["tol"], max_iter=budget, preconditioner=pre)
    if isinstance(out, Raised):
        return result(VIOL, kind="internal-error", exc=out.type, msg=out.msg, feat=feat, keys=[key])
    res = ((A @ out - B).norm(dim=-2) / B.norm(dim=-2)).mean().item()
    tol_eff = max(case["tol"], 1e-5) * 1.5
    if not warned and res >= tol_eff:
        return result(VIOL, kind="tolerance", msg=f"finished without NumericalWarning but mean relative residual {res:.3g} >= tolerance {case['tol']}", feat=feat, keys=[key])
    # (the tolerance must be reachable: above the accuracy floor implied by the safe-division threshold on p^T A p with p = P^{-1} r)
    if pk in ("small", "large"):
        mu = cst * lam.min().item()
    else:
        Pw = make_pre(pk, A, "w")[1].double()
        ww, Vw = torch.linalg.eigh(Pw)
        Ph = (Vw * ww.clamp_min(0).sqrt()) @ Vw.mT
        mu = torch.linalg.eigvalsh(0.5 * ((Ph @ A @ Ph) + (Ph @ A @ Ph).mT)).min().item()
    floor = max(3e-4, 30 * 1e-5 / math.sqrt(max(mu, 1e-300)))
    # (the converse - no warning when the budget is ample - is not part of the statement; it is only asserted for the plain
    # unpreconditioned, unscaled systems on which the floor estimate was calibrated)
    if warned and case["budget"] == "ample" and case["tol"] >= max(1e-4, floor) and "pre" not in case:
        return result(VIOL, kind="tolerance", msg=f"NumericalWarning although the budget {budget} is ample (residual {res:.3g}, tolerance {case['tol']})", feat=feat, keys=[key])
    return result(OK, feat=feat, keys=[key], ratio=0.0 if warned else res / tol_eff)


def run_contract(case, feat, key):
    n = case["n"]
    A, _ = RA.spd("unif", n, 10.0, 1.0, "C", env.SEED)
    b = torch.randn(n, 2, generator=RA.gen("CB", env.SEED), dtype=torch.float64)
    what = case["what"]
    if what == "nan":
        out = call(linear_cg, lambda v: A @ v * float("nan"), b, max_iter=5, max_tridiag_iter=1)
        ok = isinstance(out, Raised)
        msg = "NaNs from the matrix product did not raise"
    elif what == "limits":
        out = call(linear_cg, A.matmul, b, max_iter=2, max_tridiag_iter=3)
        ok = isinstance(out, Raised)
        msg = "max_tridiag_iter > max_iter did not raise"
    elif what == "bad_closure":
        out = call(linear_cg, 3.0, b, max_iter=2, max_tridiag_iter=1)
        ok = isinstance(out, Raised)
        msg = "a non-callable closure did not raise"
    elif what == "tensor_closure":
        out = call(linear_cg, A, b, tolerance=0.0, max_iter=3 * n, max_tridiag_iter=1)
        ok = not isinstance(out, Raised) and torch.allclose(A @ out, b, atol=1e-4)
        msg = f"a tensor passed as closure: {out}"
    else:
        v = b[:, 0].clone()
        out = call(linear_cg, A.matmul, v, tolerance=0.0, max_iter=3 * n, max_tridiag_iter=1)
        ok = not isinstance(out, Raised) and out.shape == v.shape and torch.allclose(A @ out, v, atol=1e-4)
        msg = f"vector right-hand side: {out if isinstance(out, Raised) else tuple(out.shape)}"
    return result(OK, feat=feat, keys=[key]) if ok else result(VIOL, kind="contract", msg=msg, feat=feat, keys=[key])
