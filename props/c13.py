"""C13 - no operation mutates caller-owned tensors or an existing operator's matrix."""
import itertools
import warnings

import torch

import linear_operator as lo
from linear_operator import operators as O
from vlib import env, recipes as R
from vlib.core import OK, OOD, UNSUP, VIOL, result
from vlib.monitor import Watch, lay
from vlib.oracles import Raised, call

ID = "C13"
TITLE = "No operation mutates caller-owned tensors or an existing operator's matrix"
TECHNIQUE = (
    "exhaustive enumeration of (operator term x batch x memory layout of the defining tensors x memory layout of the arguments x settings point x public "
    "operation), of two-step operation histories on one object (successors of unchanged object fingerprints pruned), and of (utility function x layout of "
    "every tensor argument), all executed on the real code under a mutation monitor: _version, (shape, stride, offset), dtype, requires_grad and a byte copy "
    "of the WHOLE underlying storage (sentinels around slices included) of every caller-owned tensor and of every tensor in the representation of every "
    "pre-existing operator (results of the previous step included) must be unchanged after the call, and the operator must still denote its dense model"
)
RULE = (
    "operator part: every catalogue term (all operator classes, rectangular ones included; thorough adds all depth-2 nestings) x batch {(),(2,)} x leaf layout "
    "{contiguous, non-contiguous transposed/strided view, slice of a larger sentinel-filled buffer, stride-0 expanded batch} x argument layout (same four) x "
    "settings {default, max_cholesky_size 0, max_cholesky_size 0 + preconditioning on} x ~110 public operations (products, solves, quadratic forms, "
    "factorizations with every method, sampling, derivations, arithmetic, indexing with index tensors, reshaping, conversions, in-place exempt methods, "
    "backward passes); history part (thorough): all ordered pairs of operations on one object, the second checked against caller tensors, the operator and "
    "the first result; utility part: linear_cg, minres, lanczos, psd_safe_cholesky, stable_qr, stable_pinverse, toeplitz, sparse, interpolation, "
    "permutation, contour_integral_quad utilities x the full product of layouts of their tensor arguments; non-trivial = the call did not raise before "
    "touching anything (it returned); distinct = (case, operation)"
)
ASSUMPTIONS = [
    "a bumped _version counts as a modification even if the bytes are unchanged (autograd observes it)",
    "exempt by the statement: explicit out= buffers, detach_ and requires_grad_ (their effect on values is still checked)",
    "value variety is one integer instance per (term, batch); layouts and code paths are what is enumerated",
]
CHUNK = 4
CASE_TIMEOUT = 7200
DT = torch.float64
LAYOUTS = ["contig", "tview", "sliced", "expanded"]
CFGS = [{}, {"max_cholesky_size": 0}, {"max_cholesky_size": 0, "min_preconditioning_size": 0}]


# ------------------------------------------------------------------------------------------------
# operator operations
# ------------------------------------------------------------------------------------------------
class Args:
    """deterministic caller-owned argument tensors in a given layout, all registered with the monitor"""

    def __init__(self, watch, layout, batch, grad=False, dtype=None):
        self.watch, self.layout, self.batch, self.grad, self.dtype = watch, layout, tuple(batch), grad, dtype
        self.k = 0

    def t(self, *shape, kind="int", batch=True, dtype=DT):
        self.k += 1
        g = torch.Generator().manual_seed(1000 + self.k)
        full = (self.batch if batch else ()) + tuple(shape)
        dtype = self.dtype or dtype
        if kind == "int":
            v = torch.randint(-3, 4, full, generator=g).to(dtype)
            v = v + (v.abs().sum(-1, keepdim=True) == 0).to(dtype) if v.ndim else v + 1
        elif kind == "pos":
            v = torch.randint(1, 4, full, generator=g).to(dtype)
        v = lay(v, self.layout, expand_dim=-1 if v.ndim else None)
        if self.grad and v.is_floating_point():
            v.requires_grad_(True)
        return self.watch.add(f"arg{self.k}{tuple(shape)}", v)

    def idx(self, hi, *shape):
        self.k += 1
        g = torch.Generator().manual_seed(2000 + self.k)
        v = torch.randint(0, hi, tuple(shape), generator=g)
        v = lay(v, self.layout, sentinel=0, expand_dim=-1 if v.ndim else None)
        return self.watch.add(f"index{self.k}{tuple(shape)}", v)


def _sq(c):
    return c["r"] == c["c"]


def _pd(c):
    return c["pd"]


def _any(c):
    return True


def _b(c):
    return c["nb"] > 0


def op_table():
    """(name, applicability, fn(op, A, c)); c: dict r, c (matrix shape), nb, pd; A: Args"""
    T = []

    def add(name, pred, fn):
        T.append((name, pred, fn))

    add("matmul_mat", _any, lambda op, A, c: op @ A.t(c["c"], 2))
    add("matmul_vec", _any, lambda op, A, c: op @ A.t(c["c"], batch=False))
    add("matmul_method", _any, lambda op, A, c: op.matmul(A.t(c["c"], 2)))
    add("rmatmul", _any, lambda op, A, c: A.t(2, c["r"]) @ op)
    add("rmatmul_method", _any, lambda op, A, c: op.rmatmul(A.t(2, c["r"])))
    add("t_matmul", _any, lambda op, A, c: op.mT @ A.t(c["r"], 2))
    add("torch_matmul", _any, lambda op, A, c: torch.matmul(op, A.t(c["c"], 2)))
    add("matmul_op", _any, lambda op, A, c: (op @ O.DenseLinearOperator(A.t(c["c"], 2))).to_dense())
    add("solve_mat", _pd, lambda op, A, c: op.solve(A.t(c["c"], 2)))
    add("solve_vec", _pd, lambda op, A, c: op.solve(A.t(c["c"], batch=False)))
    add("solve_left", _pd, lambda op, A, c: op.solve(A.t(c["c"], 2), A.t(2, c["c"])))
    add("torch_solve", _pd, lambda op, A, c: torch.linalg.solve(op, A.t(c["c"], 2)))
    add("inv_quad", _pd, lambda op, A, c: op.inv_quad(A.t(c["c"], 2)))
    add("inv_quad_noreduce", _pd, lambda op, A, c: op.inv_quad(A.t(c["c"], 2), reduce_inv_quad=False))
    add("inv_quad_logdet", _pd, lambda op, A, c: op.inv_quad_logdet(A.t(c["c"], 2), logdet=True))
    add("inv_quad_logdet_noreduce", _pd, lambda op, A, c: op.inv_quad_logdet(A.t(c["c"], 2), logdet=True, reduce_inv_quad=False))
    add("logdet", _pd, lambda op, A, c: op.logdet())

    # stochastic log-determinant with probe vectors assigned by the caller (deterministic_probes): the probes are caller-owned
    def _detprobes(op, A, c, fn):
        with env.settings.deterministic_probes(True), env.settings.num_trace_samples(4):
            env.settings.deterministic_probes.probe_vectors = A.t(c["c"], 4)
            return fn(op)

    add("logdet_detprobes", _pd, lambda op, A, c: _detprobes(op, A, c, lambda o: o.logdet()))
    add("inv_quad_logdet_detprobes", _pd, lambda op, A, c: _detprobes(op, A, c, lambda o: o.inv_quad_logdet(A.t(c["c"], 2), logdet=True)))
    add("sqrt_inv_matmul", _pd, lambda op, A, c: op.sqrt_inv_matmul(A.t(c["c"], 2), A.t(2, c["c"])))
    add("sqrt_inv_matmul_nolhs", _pd, lambda op, A, c: op.sqrt_inv_matmul(A.t(c["c"], 2)))
    add("diagonal", _sq, lambda op, A, c: op.diagonal())
    add("to_dense", _any, lambda op, A, c: op.to_dense())
    add("numpy", _any, lambda op, A, c: op.numpy())
    add("cholesky", _pd, lambda op, A, c: op.cholesky())
    add("cholesky_upper", _pd, lambda op, A, c: op.cholesky(upper=True))
    for m in (None, "cholesky", "symeig", "lanczos", "svd", "pivoted_cholesky", "diagonalization"):
        add(f"root_decomposition:{m}", _pd, lambda op, A, c, m=m: op.root_decomposition(method=m))
    for m in (None, "cholesky", "symeig", "lanczos", "svd", "pinverse", "diagonalization"):
        add(f"root_inv_decomposition:{m}", _pd, lambda op, A, c, m=m: op.root_inv_decomposition(method=m))
    add("root_inv_decomposition:lanczos+init", _pd,
        lambda op, A, c: op.root_inv_decomposition(initial_vectors=A.t(c["c"], 1), test_vectors=A.t(c["c"], 2), method="lanczos"))
    add("root_inv_decomposition:lanczos+inits", _pd,
        lambda op, A, c: op.root_inv_decomposition(initial_vectors=A.t(c["c"], 2), test_vectors=A.t(c["c"], 2), method="lanczos"))
    for m in (None, "symeig", "lanczos"):
        add(f"diagonalization:{m}", _pd, lambda op, A, c, m=m: op.diagonalization(method=m))
    add("svd", _any, lambda op, A, c: op.svd())
    add("eigh", _pd, lambda op, A, c: op.eigh())
    add("eigvalsh", _pd, lambda op, A, c: op.eigvalsh())
    add("pivoted_cholesky", _pd, lambda op, A, c: op.pivoted_cholesky(rank=2))
    add("pivoted_cholesky_pivots", _pd, lambda op, A, c: op.pivoted_cholesky(rank=2, return_pivots=True))
    add("preconditioner", _pd, lambda op, A, c: (lambda cl: cl[0](A.t(c["c"], 2)) if cl[0] is not None else None)(op._preconditioner()))
    add("samples", _pd, lambda op, A, c: op.zero_mean_mvn_samples(2))
    add("add_jitter", _sq, lambda op, A, c: op.add_jitter(0.5).to_dense())
    add("add_diagonal", _sq, lambda op, A, c: op.add_diagonal(A.t(c["c"], kind="pos")).to_dense())
    add("add_diagonal_scalar", _sq, lambda op, A, c: op.add_diagonal(A.t(kind="pos", batch=False)).to_dense())
    add("add_low_rank", _pd, lambda op, A, c: op.add_low_rank(A.t(c["c"], 1)))
    add("add_low_rank_noroots", _pd, lambda op, A, c: op.add_low_rank(A.t(c["c"], 1), generate_roots=False).to_dense())
    add("cat_rows", _pd, lambda op, A, c: op.cat_rows(A.t(1, c["c"]) * 0.1, A.t(1, 1, kind="pos") + 50))
    add("add_tensor", _any, lambda op, A, c: dn(op + A.t(c["r"], c["c"])))
    add("radd_tensor", _any, lambda op, A, c: dn(A.t(c["r"], c["c"]) + op))
    add("sub_tensor", _any, lambda op, A, c: dn(op - A.t(c["r"], c["c"])))
    add("add_op", _any, lambda op, A, c: dn(op + O.DenseLinearOperator(A.t(c["r"], c["c"]))))
    add("add_self", _any, lambda op, A, c: dn(op + op))
    add("add_diag_op", _sq, lambda op, A, c: dn(op + O.DiagLinearOperator(A.t(c["c"], kind="pos"))))
    add("mul_scalar", _any, lambda op, A, c: dn(op * 2.0))
    add("mul_scalar_tensor", _any, lambda op, A, c: dn(op * A.t(kind="pos", batch=False)))
    add("mul_batch_const", _b, lambda op, A, c: dn(op * A.t(1, 1, kind="pos")))
    add("mul_tensor", _any, lambda op, A, c: dn(op * A.t(c["r"], c["c"])))
    add("mul_op", _sq, lambda op, A, c: dn(op * O.DenseLinearOperator(A.t(c["r"], c["c"]))))
    add("mul_self", _pd, lambda op, A, c: dn(op * op))
    add("div_scalar", _any, lambda op, A, c: dn(op / 2.0))
    add("neg", _any, lambda op, A, c: dn(-op))
    add("getitem_tensor_idx", _any, lambda op, A, c: op[(*(slice(None),) * c["nb"], A.idx(c["r"], 2), A.idx(c["c"], 2))])
    add("getitem_row_idx", _any, lambda op, A, c: dn(op[(*(slice(None),) * c["nb"], A.idx(c["r"], 2), slice(None))]))
    add("getitem_col_idx", _any, lambda op, A, c: dn(op[(*(slice(None),) * c["nb"], slice(None), A.idx(c["c"], 2))]))
    add("getitem_slice", _any, lambda op, A, c: dn(op[..., :2, 1:]))
    add("getitem_batch_idx", _b, lambda op, A, c: dn(op[A.idx(2, 2)]))
    add("getitem_int", _any, lambda op, A, c: op[..., 0, :])
    add("mT", _any, lambda op, A, c: dn(op.mT))
    add("transpose", _any, lambda op, A, c: dn(op.transpose(-1, -2)))
    add("expand", _any, lambda op, A, c: dn(op.expand(2, *op.shape)))
    add("repeat", _any, lambda op, A, c: dn(op.repeat(*([1] * c["nb"]), 2, 1)))
    add("unsqueeze", _any, lambda op, A, c: dn(op.unsqueeze(0)))
    add("squeeze", _any, lambda op, A, c: dn(op.unsqueeze(0).squeeze(0)))
    add("permute", _b, lambda op, A, c: dn(op.unsqueeze(0).permute(1, 0, 2, 3)))
    add("sum_rows", _any, lambda op, A, c: dn(op.sum(-2)))
    add("sum_cols", _any, lambda op, A, c: dn(op.sum(-1)))
    add("sum_batch", _b, lambda op, A, c: dn(op.sum(0)))
    add("prod_batch", _b, lambda op, A, c: dn(op.prod(0)))
    add("mean", _any, lambda op, A, c: dn(op.mean(-1)))
    add("detach", _any, lambda op, A, c: dn(op.detach()))
    add("clone", _any, lambda op, A, c: dn(op.clone()))
    add("float", _any, lambda op, A, c: dn(op.float()))
    add("double", _any, lambda op, A, c: dn(op.double()))
    add("half", _any, lambda op, A, c: op.half())
    add("to_dtype", _any, lambda op, A, c: dn(op.to(torch.float32)))
    add("to_device", _any, lambda op, A, c: dn(op.to(torch.device("cpu"))))
    add("type", _any, lambda op, A, c: dn(op.type(torch.float32)))
    add("type_other", _any, lambda op, A, c: dn(op.type(torch.float64 if op.dtype == torch.float32 else torch.float32)))
    add("to_other", _any, lambda op, A, c: dn(op.to(torch.float64 if op.dtype == torch.float32 else torch.float32)))
    add("cpu", _any, lambda op, A, c: dn(op.cpu()))
    add("exp", _any, lambda op, A, c: dn(op.exp()))
    add("log", _any, lambda op, A, c: dn(op.log()))
    add("sqrt", _any, lambda op, A, c: dn(op.sqrt()))
    add("abs", _any, lambda op, A, c: dn(op.abs()))
    add("inverse", _sq, lambda op, A, c: dn(op.inverse()))
    add("representation_roundtrip", _any, lambda op, A, c: dn(op.representation_tree()(*op.representation())))
    add("evaluate_kernel", _any, lambda op, A, c: dn(op.evaluate_kernel()))
    add("bilinear_derivative", _any, lambda op, A, c: op._bilinear_derivative(A.t(c["r"], 2), A.t(c["c"], 2)))
    add("requires_grad_", _any, lambda op, A, c: op.requires_grad_(True))
    add("detach_", _any, lambda op, A, c: op.detach_())
    add("torch_diagonal", _sq, lambda op, A, c: torch.diagonal(op, dim1=-1, dim2=-2))
    add("torch_add", _any, lambda op, A, c: dn(torch.add(op, A.t(c["r"], c["c"]))))
    add("torch_mul", _any, lambda op, A, c: dn(torch.mul(op, 2.0)))
    add("torch_cholesky", _pd, lambda op, A, c: torch.linalg.cholesky(op))
    add("torch_logdet", _pd, lambda op, A, c: torch.logdet(op))
    add("lo_solve", _pd, lambda op, A, c: lo.solve(op, A.t(c["c"], 2)))
    add("lo_inv_quad_logdet", _pd, lambda op, A, c: lo.inv_quad_logdet(op, A.t(c["c"], 2), logdet=True))
    add("lo_sqrt_inv_matmul", _pd, lambda op, A, c: lo.sqrt_inv_matmul(op, A.t(c["c"], 2)))
    add("lo_pivoted_cholesky", _pd, lambda op, A, c: lo.pivoted_cholesky(op, rank=2))
    add("lo_root_decomposition", _pd, lambda op, A, c: lo.root_decomposition(op))
    add("lo_add_jitter", _sq, lambda op, A, c: dn(lo.add_jitter(op, 0.5)))
    add("lo_diagonalization", _pd, lambda op, A, c: lo.diagonalization(op))
    # queries on operators derived from this one (they may reach back into this operator's caches and earlier results)
    for dname, dfn in (("add_jitter", lambda op: op.add_jitter(0.5)), ("mul2", lambda op: op * 2.0), ("mT", lambda op: op.mT)):
        add(f"{dname}>svd", _sq, lambda op, A, c, dfn=dfn: dfn(op).svd())
        add(f"{dname}>eigh", _pd, lambda op, A, c, dfn=dfn: dfn(op).eigh())
        add(f"{dname}>cholesky", _pd, lambda op, A, c, dfn=dfn: dfn(op).cholesky())
        add(f"{dname}>root_inv", _pd, lambda op, A, c, dfn=dfn: dfn(op).root_inv_decomposition())
        add(f"{dname}>solve", _pd, lambda op, A, c, dfn=dfn: dfn(op).solve(A.t(c["c"], 2)))
    return T


def grad_table():
    """forward + backward passes; leaves and arguments require grad"""
    T = []

    def add(name, pred, fn):
        T.append((name, pred, fn))

    def bw(x):
        x = x[0] + x[1] if isinstance(x, tuple) else x
        (x.to_dense() if not torch.is_tensor(x) else x).sum().backward()

    add("bw_matmul", _any, lambda op, A, c: bw(op @ A.t(c["c"], 2)))
    add("bw_rmatmul", _any, lambda op, A, c: bw(A.t(2, c["r"]) @ op))
    add("bw_to_dense", _any, lambda op, A, c: bw(op.to_dense()))
    add("bw_diagonal", _sq, lambda op, A, c: bw(op.diagonal()))
    add("bw_solve", _pd, lambda op, A, c: bw(op.solve(A.t(c["c"], 2))))
    add("bw_solve_left", _pd, lambda op, A, c: bw(op.solve(A.t(c["c"], 2), A.t(2, c["c"]))))
    add("bw_logdet", _pd, lambda op, A, c: bw(op.logdet()))
    add("bw_inv_quad", _pd, lambda op, A, c: bw(op.inv_quad(A.t(c["c"], 2))))
    add("bw_inv_quad_logdet", _pd, lambda op, A, c: bw(op.inv_quad_logdet(A.t(c["c"], 2), logdet=True)))
    add("bw_sqrt_inv_matmul", _pd, lambda op, A, c: bw(op.sqrt_inv_matmul(A.t(c["c"], 2), A.t(2, c["c"]))))
    add("bw_root_decomposition", _pd, lambda op, A, c: bw(op.root_decomposition()))
    add("bw_root_decomposition_lanczos", _pd, lambda op, A, c: bw(op.root_decomposition(method="lanczos")))
    add("bw_root_inv_decomposition", _pd, lambda op, A, c: bw(op.root_inv_decomposition()))
    add("bw_diagonalization", _pd, lambda op, A, c: bw(op.diagonalization()[0]))
    add("bw_getitem", _any, lambda op, A, c: bw(op[..., :2, 1:]))
    add("bw_getitem_idx", _any, lambda op, A, c: bw(op[(*(slice(None),) * c["nb"], A.idx(c["r"], 2), A.idx(c["c"], 2))]))
    add("bw_samples", _pd, lambda op, A, c: bw(op.zero_mean_mvn_samples(2)))
    add("bw_add_jitter_solve", _pd, lambda op, A, c: bw(op.add_jitter(0.5).solve(A.t(c["c"], 2))))
    add("bw_mul_matmul", _any, lambda op, A, c: bw((op * 2.0) @ A.t(c["c"], 2)))
    add("bw_sum", _any, lambda op, A, c: bw(op.sum(-1)))
    add("bw_pivoted_cholesky", _pd, lambda op, A, c: bw(op.pivoted_cholesky(rank=2)))
    return T


SOLVER_OPS = ("solve", "inv_quad", "logdet", "sqrt_inv", "root_", "diagonalization", "samples", "preconditioner", "lo_", "torch_solve", "torch_logdet",
              "add_low_rank", "cat_rows", "bw_solve", "bw_logdet", "bw_inv", "bw_sqrt", "bw_root", "bw_diag", "bw_samples", "bw_add", "pivoted", "cholesky", "svd", "eig")


def dn(x):
    return x if torch.is_tensor(x) else x.to_dense()


# ------------------------------------------------------------------------------------------------
# utility functions: (name, list of (argname, maker), call)
# ------------------------------------------------------------------------------------------------
def _spd(n=4, b=()):
    g = torch.Generator().manual_seed(5)
    X = torch.randint(-2, 3, (*b, n, n), generator=g).to(DT)
    return X @ X.mT + n * torch.eye(n, dtype=DT)


def util_table():
    from linear_operator import utils as U
    from linear_operator.utils import cholesky as UC, interpolation as UI, lanczos as UL, permutation as UP, sparse as US, toeplitz as UT
    from linear_operator.utils.contour_integral_quad import contour_integral_quad
    from linear_operator.utils.qr import stable_qr

    g = torch.Generator().manual_seed(11)

    def ri(*shape, lo_=-3, hi=3):
        return torch.randint(lo_, hi + 1, shape, generator=g).to(DT)

    T = []

    def add(name, args, fn, cfg=None):
        T.append((name, args, fn, cfg or {}))

    n = 4
    for b in ((), (2,)):
        tag = "b" if b else ""
        A = _spd(n, b)
        P = torch.diag_embed(1.0 / A.diagonal(dim1=-2, dim2=-1))
        add(f"linear_cg{tag}", [("A", A), ("rhs", ri(*b, n, 2)), ("x0", ri(*b, n, 2)), ("P", P)],
            lambda a: U.linear_cg(a["A"].matmul, a["rhs"], tolerance=1e-8, max_iter=20, initial_guess=a["x0"], preconditioner=a["P"].matmul))
        add(f"linear_cg_tensor{tag}", [("A", A), ("rhs", ri(*b, n, 2))], lambda a: U.linear_cg(a["A"], a["rhs"], tolerance=1e-8, max_iter=20))
        add(f"linear_cg_tridiag{tag}", [("A", A), ("rhs", ri(*b, n, 3)), ("x0", ri(*b, n, 3))],
            lambda a: U.linear_cg(a["A"].matmul, a["rhs"], n_tridiag=2, tolerance=1e-8, max_iter=20, max_tridiag_iter=4, initial_guess=a["x0"]))
        add(f"linear_cg_zero_rhs{tag}", [("A", A), ("rhs", torch.zeros(*b, n, 2, dtype=DT))], lambda a: U.linear_cg(a["A"].matmul, a["rhs"], tolerance=1e-8, max_iter=20))
        add(f"linear_cg_identity_closure{tag}", [("rhs", ri(*b, n, 2))], lambda a: U.linear_cg(lambda v: v, a["rhs"], tolerance=1e-8, max_iter=20))
        add(f"linear_cg_identity_precond{tag}", [("A", A), ("rhs", ri(*b, n, 2))],
            lambda a: U.linear_cg(a["A"].matmul, a["rhs"], tolerance=1e-8, max_iter=20, preconditioner=lambda v: v))
        add(f"minres{tag}", [("A", A), ("rhs", ri(*b, n, 2))], lambda a: U.minres(a["A"].matmul, a["rhs"], max_iter=20))
        add(f"minres_shifts{tag}", [("A", A), ("rhs", ri(*b, n, 2)), ("shifts", torch.tensor([0.5, 1.0, 2.0], dtype=DT))],
            lambda a: U.minres(a["A"].matmul, a["rhs"], shifts=a["shifts"], value=-1.0, max_iter=20))
        add(f"minres_one_shift{tag}", [("A", A), ("rhs", ri(*b, n, 2)), ("shifts", torch.tensor([0.5], dtype=DT))],
            lambda a: U.minres(a["A"].matmul, a["rhs"], shifts=a["shifts"], value=-1.0, max_iter=20))
        add(f"minres_precond{tag}", [("A", A), ("rhs", ri(*b, n, 2)), ("P", P)],
            lambda a: U.minres(a["A"].matmul, a["rhs"], max_iter=20, preconditioner=a["P"].matmul))
        add(f"minres_identity_closure{tag}", [("rhs", ri(*b, n, 2))], lambda a: U.minres(lambda v: v, a["rhs"], max_iter=5))
        add(f"lanczos_tridiag{tag}", [("A", A), ("init", ri(*b, n, 1))],
            lambda a: UL.lanczos_tridiag(a["A"].matmul, 4, DT, a["A"].device, a["A"].shape[-2:], batch_shape=a["A"].shape[:-2], init_vecs=a["init"]))
        add(f"lanczos_tridiag_multi{tag}", [("A", A), ("init", ri(*b, n, 2))],
            lambda a: UL.lanczos_tridiag(a["A"].matmul, 4, DT, a["A"].device, a["A"].shape[-2:], batch_shape=a["A"].shape[:-2], init_vecs=a["init"]))
        add(f"lanczos_tridiag_identity{tag}", [("init", ri(*b, n, 1))],
            lambda a, b=b: UL.lanczos_tridiag(lambda v: v, 4, DT, a["init"].device, torch.Size([n, n]), batch_shape=torch.Size(b), init_vecs=a["init"]))
        Tm = torch.diag_embed(ri(*b, n, lo_=2, hi=5)) + torch.diag_embed(torch.ones(*b, n - 1, dtype=DT), 1) + torch.diag_embed(torch.ones(*b, n - 1, dtype=DT), -1)
        add(f"lanczos_tridiag_to_diag{tag}", [("T", Tm)], lambda a: UL.lanczos_tridiag_to_diag(a["T"]))
        add(f"psd_safe_cholesky{tag}", [("A", A)], lambda a: UC.psd_safe_cholesky(a["A"]))
        add(f"psd_safe_cholesky_upper{tag}", [("A", A)], lambda a: UC.psd_safe_cholesky(a["A"], upper=True))
        sing = A - torch.linalg.eigvalsh(A)[..., :1, None] * torch.eye(n, dtype=DT) * (1 + 1e-9)
        add(f"psd_safe_cholesky_jitter{tag}", [("A", sing)], lambda a: UC.psd_safe_cholesky(a["A"], jitter=1e-3, max_tries=4))
        add(f"psd_safe_cholesky_out{tag}", [("A", A)], lambda a: UC.psd_safe_cholesky(a["A"], out=torch.empty_like(a["A"].contiguous())))
        add(f"stable_qr{tag}", [("M", ri(*b, n, 3))], lambda a: stable_qr(a["M"]))
        add(f"stable_qr_rankdef{tag}", [("M", torch.cat([ri(*b, n, 1)] * 2 + [torch.zeros(*b, n, 1, dtype=DT)], -1))], lambda a: stable_qr(a["M"]))
        add(f"stable_qr_wide{tag}", [("M", ri(*b, 2, n))], lambda a: stable_qr(a["M"]))
        add(f"stable_pinverse{tag}", [("M", ri(*b, n, 3))], lambda a: U.stable_pinverse(a["M"]))
        add(f"stable_pinverse_wide{tag}", [("M", ri(*b, 2, n))], lambda a: U.stable_pinverse(a["M"]))
        col = torch.cat([torch.full((*b, 1), 9.0, dtype=DT), ri(*b, n - 1)], -1)
        row = torch.cat([col[..., :1], ri(*b, n - 1)], -1)
        if not b:
            add("toeplitz", [("c", col), ("r", row)], lambda a: UT.toeplitz(a["c"], a["r"]))
            add("sym_toeplitz", [("c", col)], lambda a: UT.sym_toeplitz(a["c"]))
            add("toeplitz_matmul_vec", [("c", col), ("r", row), ("t", ri(n))], lambda a: UT.toeplitz_matmul(a["c"], a["r"], a["t"]))
            add("linear_cg_vec", [("A", A), ("rhs", ri(n)), ("x0", ri(n))],
                lambda a: U.linear_cg(a["A"].matmul, a["rhs"], tolerance=1e-8, max_iter=20, initial_guess=a["x0"]))
            add("minres_vec", [("A", A), ("rhs", ri(n))], lambda a: U.minres(a["A"].matmul, a["rhs"], max_iter=20))
            add("left_interp_vec", [("idx", torch.randint(0, 5, (n, 2), generator=g)), ("vals", ri(n, 2)), ("rhs", ri(5))], lambda a: UI.left_interp(a["idx"], a["vals"], a["rhs"]))
            add("left_t_interp_vec", [("idx", torch.randint(0, 5, (n, 2), generator=g)), ("vals", ri(n, 2)), ("rhs", ri(n))], lambda a: UI.left_t_interp(a["idx"], a["vals"], a["rhs"], 5))
        add(f"toeplitz_matmul{tag}", [("c", col), ("r", row), ("t", ri(*b, n, 2))], lambda a: UT.toeplitz_matmul(a["c"], a["r"], a["t"]))
        add(f"sym_toeplitz_matmul{tag}", [("c", col), ("t", ri(*b, n, 2))], lambda a: UT.sym_toeplitz_matmul(a["c"], a["t"]))
        add(f"sym_toeplitz_derivative_quadratic_form{tag}", [("l", ri(*b, 2, n)), ("r", ri(*b, 2, n))],
            lambda a: UT.sym_toeplitz_derivative_quadratic_form(a["l"], a["r"]))
        if not b:
            add("toeplitz_getitem", [("c", col), ("r", row)], lambda a: (UT.toeplitz_getitem(a["c"], a["r"], 2, 1), UT.toeplitz_getitem(a["c"], a["r"], 0, 3)))
            add("sym_toeplitz_getitem", [("c", col)], lambda a: UT.sym_toeplitz_getitem(a["c"], 3, 1))
        idx = torch.randint(0, 5, (*b, n, 2), generator=g)
        vals = ri(*b, n, 2)
        add(f"make_sparse{tag}", [("idx", idx), ("vals", vals)], lambda a: US.make_sparse_from_indices_and_values(a["idx"], a["vals"], 5))
        add(f"make_sparse_zeros{tag}", [("idx", idx), ("vals", torch.zeros(*b, n, 2, dtype=DT))], lambda a: US.make_sparse_from_indices_and_values(a["idx"], a["vals"], 5))
        add(f"make_sparse_some_zero{tag}", [("idx", idx), ("vals", vals * (torch.arange(2) > 0).to(DT))], lambda a: US.make_sparse_from_indices_and_values(a["idx"], a["vals"], 5))
        add(f"left_interp{tag}", [("idx", idx), ("vals", vals), ("rhs", ri(*b, 5, 3))], lambda a: UI.left_interp(a["idx"], a["vals"], a["rhs"]))
        add(f"left_t_interp{tag}", [("idx", idx), ("vals", vals), ("rhs", ri(*b, n, 3))], lambda a: UI.left_t_interp(a["idx"], a["vals"], a["rhs"], 5))
        sp = US.make_sparse_from_indices_and_values(idx, vals, 5)
        add(f"bdsmm{tag}", [("sp", sp), ("d", ri(*b, n, 2))], lambda a: US.bdsmm(a["sp"], a["d"]))
        add(f"dsmm{tag}", [("sp", sp), ("d", ri(*b, n, 2))], lambda a: lo.dsmm(a["sp"], a["d"]))
        add(f"to_sparse{tag}", [("d", ri(*b, 3, 3) * (ri(*b, 3, 3) > 0))], lambda a: US.to_sparse(a["d"]))
        add(f"sparse_repeat{tag}", [("sp", sp)], lambda a: US.sparse_repeat(a["sp"], 2, *([1] * (len(b) + 2))))
        if not b:
            add("sparse_getitem", [("sp", sp)], lambda a: US.sparse_getitem(a["sp"], (slice(1, 3), slice(None))))
            add("sparse_getitem_int", [("sp", sp)], lambda a: US.sparse_getitem(a["sp"], (1, slice(None))))
        perm = torch.stack([torch.randperm(n, generator=g) for _ in range(max(1, int(torch.Size(b).numel())))]).reshape(*b, n)
        add(f"apply_permutation{tag}", [("M", ri(*b, n, n)), ("l", perm), ("r", perm.flip(-1))], lambda a: UP.apply_permutation(a["M"], a["l"], a["r"]))
        add(f"apply_permutation_left{tag}", [("M", ri(*b, n, n)), ("l", perm)], lambda a: UP.apply_permutation(a["M"], a["l"], None))
        add(f"apply_permutation_op{tag}", [("M", ri(*b, n, n)), ("l", perm)], lambda a: dn(UP.apply_permutation(O.DenseLinearOperator(a["M"]), a["l"], a["l"])))
        add(f"inverse_permutation{tag}", [("p", perm)], lambda a: UP.inverse_permutation(a["p"]))
        for inverse in (False, True):
            add(f"contour_integral_quad{tag}:{'inv' if inverse else 'sqrt'}", [("A", A), ("rhs", ri(*b, n, 2))],
                lambda a, inverse=inverse: contour_integral_quad(O.DenseLinearOperator(a["A"]), a["rhs"], inverse=inverse, num_contour_quadrature=7), {"minres_tolerance": 1e-8})
        add(f"contour_integral_quad_given{tag}", [("A", A), ("rhs", ri(*b, n, 2)), ("w", torch.full((2, *([1] * len(b)), 1, 1), 0.3, dtype=DT)), ("s", torch.tensor([0.0, 1.0, 3.0], dtype=DT))],
            lambda a: contour_integral_quad(O.DenseLinearOperator(a["A"]), a["rhs"], weights=a["w"], shifts=a["s"]), {"minres_tolerance": 1e-8})
        add(f"pad_with_singletons{tag}", [("t", ri(*b, n, 2))], lambda a: U.broadcasting._pad_with_singletons(a["t"], 1, 2))
    return T


# ------------------------------------------------------------------------------------------------
def cases(tier, seed):
    out = []
    cat = R.catalogue(3)
    names = list(cat)
    combos = [(a, a) for a in LAYOUTS] if tier == "quick" else list(itertools.product(LAYOUTS, LAYOUTS))
    for name in names:
        for b in ([], [2]):
            for (ll, al) in combos:
                if ll == "expanded" and not b:
                    continue
                out.append({"kind": "op", "name": name, "term": cat[name], "batch": b, "leaf_layout": ll, "arg_layout": al, "mode": "single"})
            out.append({"kind": "op", "name": name, "term": cat[name], "batch": b, "leaf_layout": "sliced", "arg_layout": "sliced", "mode": "grad"})
    if tier == "thorough":
        nest = R.nestings(3)
        for name, t in nest.items():
            for b in ([], [2]):
                for ll in ("sliced", "tview"):
                    out.append({"kind": "op", "name": name, "term": t, "batch": b, "leaf_layout": ll, "arg_layout": ll, "mode": "single"})
        for name in names:
            for b in ([], [2]):
                out.append({"kind": "op", "name": name, "term": cat[name], "batch": b, "leaf_layout": "sliced", "arg_layout": "sliced", "mode": "pairs"})
    for i, (uname, args, fn, cfg) in enumerate(util_table()):
        out.append({"kind": "util", "name": uname, "index": i})
    return out


def bounds(tier):
    return {"n": 3, "terms": len(R.catalogue(3)) + (len(R.nestings(3)) if tier == "thorough" else 0), "batches": "(),(2,)", "layouts": LAYOUTS,
            "layout_combinations": "leaf layout == argument layout" if tier == "quick" else "full product (depth-1), {sliced, tview} (depth-2)",
            "settings_points": CFGS, "operations": len(op_table()), "backward_operations": len(grad_table()), "utility_calls": len(util_table()),
            "history_depth": 1 if tier == "quick" else 2}


def _feat(case, opname, cfg):
    return {"name": case["name"], "head": case.get("term", [case["name"]])[0] if case["kind"] == "op" else "util", "nb": len(case.get("batch", ())),
            "leaf_layout": case.get("leaf_layout"), "arg_layout": case.get("arg_layout"), "op": opname, "cfg": ",".join(f"{k}={v}" for k, v in sorted(cfg.items())),
            "mode": case.get("mode", "util")}


def _build(case, grad):
    env.settings_restore()
    try:
        b, ctx = R.fresh(case["term"], dtype=DT, batch=tuple(case["batch"]), seed=env.SEED, layout=case["leaf_layout"], grad="all" if grad else None)
    except R.NotApplicable:  # permutation operators exist in float32 only
        b, ctx = R.fresh(case["term"], dtype=torch.float32, batch=tuple(case["batch"]), seed=env.SEED, layout=case["leaf_layout"], grad="all" if grad else None)
    return b, ctx


def _dense_ok(op, dense):
    d = call(op.to_dense)
    if isinstance(d, Raised):
        return None
    if tuple(d.shape) != tuple(dense.shape):
        return f"to_dense() now has shape {tuple(d.shape)} (was {tuple(dense.shape)})"
    e = (d.detach().to(DT) - dense.detach().to(DT)).abs().max().item() if d.numel() else 0.0
    if not e <= 1e-8 * max(1.0, dense.abs().max().item()):
        return f"the operator no longer denotes its matrix: to_dense() differs by {e:.3g}"
    return None


def _result_watch(w, label, res):
    """results of an earlier step are existing objects too"""
    items = res if isinstance(res, (tuple, list)) else [res]
    for i, x in enumerate(items):
        if torch.is_tensor(x):
            w.add(f"{label}[{i}]", x)
        elif isinstance(x, O.LinearOperator):
            w.add_operator(f"{label}[{i}]", x)


def run_step(case, table_entry, cfg, grad, prior=None):
    """one operation on a fresh object (optionally after a prior operation); returns the sub-result"""
    opname, pred, fn = table_entry
    probe = call(_build, case, grad)
    if isinstance(probe, Raised):
        return None
    b, ctx = probe
    r, cdim = b.dense.shape[-2:]
    c = {"r": r, "c": cdim, "nb": b.dense.ndim - 2, "pd": bool(b.pd) and r == cdim}
    feat = _feat(case, opname if prior is None else f"{prior[0]}>{opname}", cfg)
    key = f"{case['name']}|{case['batch']}|{case['leaf_layout']}|{case['arg_layout']}|{feat['op']}|{feat['cfg']}|{case['mode']}"
    if not pred(c):
        return None
    dense0 = b.dense.detach().clone()
    meta0 = (b.op.dtype, tuple(b.op.shape), b.op.device, type(b.op).__name__)
    env.set_settings(dict(cfg, cg_tolerance=1e-6))
    torch.manual_seed(77)
    with warnings.catch_warnings():
        warnings.simplefilter("ignore")
        first = None
        if prior is not None:
            w0 = Watch()
            first = call(prior[2], b.op, Args(w0, case["arg_layout"], case["batch"], grad), c)
            if isinstance(first, Raised):
                return None
        w = Watch()
        for lname, t in ctx.leaves.items():
            w.add(f"leaf {lname}", t)
        w.add_operator("operator", b.op)
        if first is not None:
            _result_watch(w, f"result of {prior[0]}", first)
        A = Args(w, case["arg_layout"], case["batch"], grad, dtype=b.dense.dtype)
        out = call(fn, b.op, A, c)
    exempt = opname in ("requires_grad_", "detach_")
    msgs = w.check(exempt_version=False, exempt_requires_grad=exempt)
    env.settings_restore()
    with warnings.catch_warnings():
        warnings.simplefilter("ignore")
        dmsg = _dense_ok(b.op, dense0)
    if dmsg:
        msgs.append(dmsg)
    meta1 = (b.op.dtype, tuple(b.op.shape), b.op.device, type(b.op).__name__)
    if meta1 != meta0:
        msgs.append(f"operator: (dtype, shape, device, class) {meta0} -> {meta1}")
    raised = isinstance(out, Raised)
    if msgs:
        return result(VIOL, kind="mutation", msg="; ".join(msgs)[:390], feat=dict(feat, raised=raised, what=msgs[0].split(":")[0][:40]), keys=[key])
    return result(OK, feat=feat, keys=[key], nontrivial=not raised)


def run_util(case):
    uname, args, fn, cfg = util_table()[case["index"]]
    subs = []
    names = [a for a, _ in args]
    combos = list(itertools.product(LAYOUTS, repeat=len(args))) if len(args) <= 3 else [tuple(l if i == j else "contig" for i in range(len(args))) for j in range(len(args)) for l in LAYOUTS] + [(l,) * len(args) for l in LAYOUTS]
    for combo in dict.fromkeys(combos):
        env.settings_restore()
        env.set_settings(cfg)
        w = Watch()
        a = {}
        for (an, base), layout in zip(args, combo):
            if base.is_sparse:
                t = base.clone()
            else:
                if an in ("A", "P", "T", "l", "r", "p", "w") and uname.split(":")[0].rstrip("b") != "toeplitz":
                    ed = 0 if (base.ndim > 2 or (an in ("l", "p") and base.ndim > 1) or an == "w") else None  # batch dimension: keeps the structural class
                    if uname.startswith(("toeplitz", "sym_toeplitz")) and an == "r":
                        ed = -1
                else:
                    ed = -1 if base.ndim else None
                t = lay(base, layout, sentinel=0 if not base.is_floating_point() else 777, expand_dim=ed)
            a[an] = w.add(an, t)
        torch.manual_seed(5)
        with warnings.catch_warnings():
            warnings.simplefilter("ignore")
            out = call(fn, a)
        msgs = w.check()
        feat = {"name": uname, "head": "util", "op": uname, "layouts": ",".join(combo), "mode": "util", "cfg": ""}
        key = f"{uname}|{combo}"
        if msgs:
            subs.append(result(VIOL, kind="mutation", msg="; ".join(msgs)[:390], feat=dict(feat, raised=isinstance(out, Raised), what=msgs[0].split(":")[0][:40]), keys=[key]))
        else:
            subs.append(result(OK, feat=feat, keys=[key], nontrivial=not isinstance(out, Raised), msg=(out.msg if isinstance(out, Raised) else "")))
    env.settings_restore()
    return result(OK, feat={"name": uname}, trans=len(subs), sub=subs)


def run(case):
    if case["kind"] == "util":
        return run_util(case)
    subs = []
    probe = call(_build, case, False)
    if isinstance(probe, Raised):
        return result(OOD, feat={"name": case["name"]}, msg=probe.msg, nontrivial=False)
    trans = 0
    if case["mode"] == "grad":
        for entry in grad_table():
            for cfg in CFGS[:2]:
                if cfg and not entry[0].startswith(SOLVER_OPS):
                    continue
                s = run_step(case, entry, cfg, True)
                if s is not None:
                    subs.append(s)
                    trans += 1
    elif case["mode"] == "single":
        for entry in op_table():
            for cfg in CFGS:
                if cfg and not entry[0].startswith(SOLVER_OPS):
                    continue
                s = run_step(case, entry, cfg, False)
                if s is not None:
                    subs.append(s)
                    trans += 1
    else:  # pairs: the first operation leaves caches and a result behind, the second one is monitored
        from props.c12 import fingerprint

        table = op_table()
        b0, _ = probe
        fp0 = fingerprint(b0.op, ())
        for first in table:
            # does the first operation change the object at all? (otherwise the pair repeats the single step)
            b, ctx = _build(case, False)
            r, cdim = b.dense.shape[-2:]
            c = {"r": r, "c": cdim, "nb": b.dense.ndim - 2, "pd": bool(b.pd) and r == cdim}
            if not first[1](c):
                continue
            torch.manual_seed(77)
            with warnings.catch_warnings():
                warnings.simplefilter("ignore")
                res1 = call(first[2], b.op, Args(Watch(), case["arg_layout"], case["batch"]), c)
            if isinstance(res1, Raised):
                continue
            returns_state = isinstance(res1, O.LinearOperator) or torch.is_tensor(res1) or isinstance(res1, tuple)
            if fingerprint(b.op, ()) == fp0 and not returns_state:
                continue
            for second in table:
                s = run_step(case, second, {}, False, prior=first)
                if s is not None:
                    subs.append(s)
                    trans += 2
    env.settings_restore()
    return result(OK, feat={"name": case["name"]}, trans=trans, sub=subs)
