"""C19 - incompatible shapes and out-of-range indices raise, never mis-compute."""
import torch

from vlib import env, recipes as R
from vlib.core import OK, OOD, VIOL, result
from vlib.oracles import Raised, call

ID = "C19"
TITLE = "Incompatible shapes and out-of-range indices raise, never mis-compute"
TECHNIQUE = "exhaustive enumeration of (operator term x operation x torch-rejected operand shape / index) cells on the real operators; the dense torch operation decides the domain, the library must raise (immediately or on materialisation)"
RULE = (
    "every catalogue term (and wrapper nestings in thorough) x batch {(),(2,)} x operations {matmul, rmatmul, solve, inv_quad, "
    "inv_quad_logdet, +, -, *, add_diagonal, cat, expand, getitem, square-only ops on rectangular} x every bad operand/index "
    "kind; a cell is evaluated only if torch rejects the same operation on the dense matrix; non-trivial = evaluated cell"
)
ASSUMPTIONS = ["default settings only (the statement does not quantify over configurations)",
               "a lazily returned operator counts as 'raised' if reading its shape and densifying it raises"]
CHUNK = 10
DT = torch.float64


def cases(tier, seed):
    out = []
    cat = R.catalogue(3)
    items = list(cat.items())
    if tier == "thorough":
        items += list(R.nestings(3).items())
    for name, term in items:
        for b in ([], [2]):
            out.append({"name": name, "term": term, "batch": b})
    return out


def bounds(tier):
    return {"n": 3, "batches": "(),(2,)", "terms": "catalogue (quick) + all depth-2 nestings (thorough)", "settings": "default"}


def _t(shape, k=0):
    g = torch.Generator()
    g.manual_seed(1234 + k)
    return torch.randint(1, 4, tuple(shape), generator=g).to(DT)


def materialise(x):
    """Force a (possibly lazy) result; returns Raised if anything along the way raises."""
    def go():
        if isinstance(x, (tuple, list)):
            return [materialise_inner(y) for y in x]
        return materialise_inner(x)
    return call(go)


def materialise_inner(y):
    if y is None or isinstance(y, (int, float)):
        return y
    if torch.is_tensor(y):
        return tuple(y.shape)
    shp = tuple(y.shape)
    d = y.to_dense()
    if tuple(d.shape) != shp:
        raise RuntimeError(f"lazy result reports shape {shp} but densifies to {tuple(d.shape)}")
    return shp


def run(case):
    batch = tuple(case["batch"])
    head = case["term"][0]
    built = call(R.fresh, case["term"], dtype=DT, batch=batch, seed=env.SEED, values="real")
    if isinstance(built, Raised) and built.type == "NotApplicable":
        built = call(R.fresh, case["term"], dtype=torch.float32, batch=batch, seed=env.SEED, values="real")
    keyp = f"{case['name']}|{batch}"
    if isinstance(built, Raised):
        return result(OOD, feat={"head": head, "name": case["name"]}, keys=[keyp + "|construct"], msg=built.msg)
    b, ctx = built
    op = b.op
    dense = b.dense.to(DT) if b.dense.dtype != torch.float32 or True else b.dense
    dt = dense.dtype
    opb = tuple(dense.shape[:-2])
    r, c = dense.shape[-2:]
    heads = R.heads_of(case["term"])
    base = {"head": head, "name": case["name"], "nb": len(opb), "has_zero": "Zero" in heads, "square": r == c,
            "br_rect": R.has_rect_batch_repeat(case["term"])}
    subs = []

    def cell(opname, kind, impl_fn, ref_fn):
        feat = dict(base, op=opname, bad=kind)
        key = f"{keyp}|{opname}|{kind}"
        ref = call(ref_fn)
        if not isinstance(ref, Raised):
            subs.append(result(OOD, feat=feat, keys=[key]))  # torch accepts it: not in this property
            return
        got = call(impl_fn)
        if not isinstance(got, Raised):
            got = materialise(got)
        if isinstance(got, Raised):
            subs.append(result(OK, feat=feat, keys=[key]))
        else:
            subs.append(result(VIOL, kind="no-error", msg=f"{opname} with {kind}: torch raises ({ref.type}: {ref.msg[:80]}) but the library returned {got}", feat=feat, keys=[key]))

    nbb = (3,) if opb else None  # a batch shape that does not broadcast against (2,)
    # ---- matmul / rmatmul --------------------------------------------------------------------
    rhs_kinds = {"inner+1": (c + 1, 2), "inner-1": (c - 1, 2) if c > 1 else None, "inner=1": (1, 2) if c > 1 else None,
                 "vec+1": (c + 1,), "vec=1": (1,) if c > 1 else None, "badbatch": (*nbb, c, 2) if nbb else None,
                 "ndim1-as-batch": (c + 1, c, 2) if False else None}
    for kind, shp in rhs_kinds.items():
        if shp is None:
            continue
        X = _t(shp).to(dt)
        cell("matmul", kind, lambda: op @ X, lambda: torch.matmul(dense, X))
        cell("matmul_method", kind, lambda: op.matmul(X), lambda: torch.matmul(dense, X))
    lhs_kinds = {"inner+1": (2, r + 1), "inner=1": (2, 1) if r > 1 else None, "vec+1": (r + 1,), "vec=1": (1,) if r > 1 else None,
                 "badbatch": (*nbb, 2, r) if nbb else None}
    for kind, shp in lhs_kinds.items():
        if shp is None:
            continue
        X = _t(shp).to(dt)
        cell("rmatmul", kind, lambda: X @ op, lambda: torch.matmul(X, dense))
    # ---- solve family (reference: torch.linalg.solve on the dense matrix) ----------------------------
    if r == c:
        solve_kinds = {"rows+1": (r + 1, 2), "rows=1": (1, 2) if r > 1 else None, "vec+1": (r + 1,), "vec=1": (1,) if r > 1 else None,
                       "badbatch": (*nbb, r, 2) if nbb else None}
        for kind, shp in solve_kinds.items():
            if shp is None:
                continue
            X = _t(shp).to(dt)

            def ref_solve():
                if X.dim() == 1 and X.shape[0] != r:
                    raise RuntimeError("vector rhs of wrong length")
                return torch.linalg.solve(dense, X if X.dim() > 1 else X.unsqueeze(-1))
            cell("solve", kind, lambda: op.solve(X), ref_solve)
            cell("inv_quad", kind, lambda: op.inv_quad(X), ref_solve)
            cell("inv_quad_logdet", kind, lambda: op.inv_quad_logdet(X, logdet=True), ref_solve)
    else:
        X = _t((r, 2)).to(dt)
        cell("solve", "rectangular", lambda: op.solve(X), lambda: torch.linalg.solve(dense, X))
        cell("logdet", "rectangular", lambda: op.logdet(), lambda: torch.logdet(dense))
        cell("inv_quad_logdet", "rectangular", lambda: op.inv_quad_logdet(X, logdet=True), lambda: torch.linalg.solve(dense, X))
        cell("cholesky", "rectangular", lambda: op.cholesky(), lambda: torch.linalg.cholesky(dense))
        cell("add_jitter", "rectangular", lambda: op.add_jitter(1.0), lambda: dense + torch.eye(r, dtype=dt).expand(dense.shape))
        d = _t((r,)).to(dt)
        cell("add_diagonal", "rectangular", lambda: op.add_diagonal(d), lambda: dense + torch.diag_embed(d.expand(dense.shape[:-1])))
        cell("diagonalization", "rectangular", lambda: op.diagonalization(), lambda: torch.linalg.eigh(dense))
    # ---- elementwise + - * with tensors and operators ------------------------------------------------
    ew_kinds = {"rows+1": (r + 1, c), "cols+1": (r, c + 1), "both+1": (r + 1, c + 1), "badbatch": (*nbb, r, c) if nbb else None,
                "rows=2of3": (2, c) if r == 3 else None}
    for kind, shp in ew_kinds.items():
        if shp is None:
            continue
        Y = _t(shp).to(dt)
        Yop = R.O.DenseLinearOperator(Y)
        cell("add_tensor", kind, lambda: op + Y, lambda: dense + Y)
        cell("radd_tensor", kind, lambda: Y + op, lambda: Y + dense)
        cell("add_op", kind, lambda: op + Yop, lambda: dense + Y)
        cell("sub_tensor", kind, lambda: op - Y, lambda: dense - Y)
        cell("sub_op", kind, lambda: op - Yop, lambda: dense - Y)
        cell("mul_tensor", kind, lambda: op * Y, lambda: dense * Y)
    # ---- add_diagonal ------------------------------------------------------------------------------
    if r == c:
        for kind, shp in {"len+1": (r + 1,), "len=2of3": (2,) if r == 3 else None, "badbatch": (*nbb, r) if nbb else None}.items():
            if shp is None:
                continue
            d = _t(shp).to(dt)
            cell("add_diagonal", kind, lambda: op.add_diagonal(d), lambda: dense + torch.diag_embed(d.expand(dense.shape[:-1])))
    # ---- concatenation -----------------------------------------------------------------------------
    from linear_operator.operators import cat as lo_cat

    for kind, (shp, dim) in {"rows:cols+1": ((2, c + 1), -2), "cols:rows+1": ((r + 1, 2), -1)}.items():
        Y = _t((*opb, *shp)).to(dt)
        Yop = R.O.DenseLinearOperator(Y)
        cell("cat", kind, lambda: lo_cat([op, Yop], dim=dim), lambda: torch.cat([dense, Y], dim=dim))
    # ---- expand ------------------------------------------------------------------------------------
    exp_kinds = {"rows+1": (*opb, r + 1, c), "cols+1": (*opb, r, c + 1), "badbatch": (3, r, c) if opb else None,
                 "fewer_dims": (c,),
                 # broadcast-compatible with the operator's batch shape, but not an expansion of it (torch refuses all three)
                 "shrink_batch": (*(1 for _ in opb), r, c) if opb else None, "drop_batch": (r, c) if opb else None,
                 "one_under_batch": (3, *(1 for _ in opb), r, c) if opb else None}
    for kind, shp in exp_kinds.items():
        if shp is None:
            continue
        cell("expand", kind, lambda: op.expand(*shp), lambda: dense.expand(*shp))
    # ---- out-of-range indices ----------------------------------------------------------------------
    nd = dense.dim()
    for pos in range(nd):
        s = dense.shape[pos]
        for kind, v in {"int=size": s, "int<-size": -s - 1, "tensor=size": torch.tensor([0, s]), "int>>size": s + 7}.items():
            idx = [slice(None)] * nd
            idx[pos] = v
            idx = tuple(idx)
            cell("getitem", f"{kind}@{'b' if pos < nd - 2 else ('r' if pos == nd - 2 else 'c')}", lambda: op[idx], lambda: dense[idx])
    idx2 = (torch.tensor([0, r]), torch.tensor([0, 0]))
    cell("getitem", "tensor=size@rc", lambda: op[(Ellipsis, *idx2)], lambda: dense[(Ellipsis, *idx2)])
    idx3 = (Ellipsis, 0, c)
    cell("getitem", "int,int=size", lambda: op[idx3], lambda: dense[idx3])
    cell("getitem", "too-many-indices", lambda: op[(0,) * (nd + 1)], lambda: dense[(0,) * (nd + 1)])
    return result(sub=subs, trans=len(subs) + 1)
