"""C02 - composition and structure-preserving rewrites never change the matrix."""
import itertools

import torch

from vlib import env, recipes as R
from vlib.core import OK, OOD, UNSUP, VIOL, result
from vlib.oracles import Raised, call, compare, is_explicit_unsupported

ID = "C02"
TITLE = "Composition and structure-preserving rewrites never change the matrix"
TECHNIQUE = "bounded exhaustive enumeration of expression programs (all ordered pairs of operator classes x binary ops x batch pairs; all unary rewrites; depth-2 chains in thorough) executed on the real operators next to a dense-tensor twin"
RULE = (
    "programs = {A op B : all ordered pairs of uniform-catalogue heads and tensors, op in + - * @ cat, 5 batch-shape pairs} + "
    "{unary rewrite(A) : scalar mul/div (6 scalar kinds), mT, batch transpose/permute/unsqueeze/squeeze/expand/repeat/sum/prod, "
    "add_jitter, add_diagonal (5 diag shapes), add_low_rank, cat_rows}; thorough: every unary rewrite applied to every binary "
    "result with a distinct result type tree; root-based operations restricted to PD operands; non-trivial = reference result "
    "not identically zero; distinct = (program, result type tree)"
)
ASSUMPTIONS = ["integer value alphabet (exact for linear-algebra-exact actions); root-based rewrites compared at c*eps*scale on PD operands",
               "the dense twin with torch broadcasting semantics defines the expected value; twin refusal = out of domain"]
CHUNK = 40
DT = torch.float64
N = 6
ALLOW = (r"__add__|__radd__|__sub__|__rsub__|__mul__|__rmul__|__matmul__|__rmatmul__|__truediv__|__neg__|add|sub|mul|div|matmul|rmatmul|"
         r"_mul_constant|_mul_matrix|add_diagonal|add_jitter|add_low_rank|cat_rows|cat|expand|_expand_batch|repeat|permute|_permute_batch|squeeze|"
         r"unsqueeze|_unsqueeze_batch|sum|_sum_batch|prod|_prod_batch|transpose|__init__|_check_args|__torch_function__")

BATCH_PAIRS = [((), ()), ((2,), (2,)), ((2,), ()), ((), (2,)), ((1,), (2,))]
BIN_OPS = ["+", "-", "*", "@", "cat-2", "cat-1", "cat0"]
ROOT_HEADS = ("Root", "LowRankRoot", "Chol")


def unary_actions():
    acts = []
    for sk in ("pyfloat", "t0", "neg", "zero", "pyneg", "batchconst", "batchmixed"):
        acts.append(["mul", sk])
        acts.append(["rmul", sk])
    for sk in ("pyfloat", "t0", "neg", "batchconst"):
        acts.append(["div", sk])
    acts += [["mT"], ["transpose01"], ["permute"], ["unsqueeze0"], ["unsqueeze1"], ["squeeze0"], ["expand2"], ["expand23"],
             ["repeat2"], ["repeat21"], ["sum0"], ["sum-3"], ["prod0"], ["add_jitter"]]
    for dk in ("t0", "one", "n", "bn", "b1"):
        acts.append(["add_diagonal", dk])
    acts += [["add_low_rank"], ["cat_rows"], ["to_dense"], ["clone"], ["detach"]]
    return acts


def rank3_actions():
    acts = [["sumd", d] for d in (0, 1, 2, -5, -4, -3)] + [["prodd", d] for d in (0, 1, 2)]
    acts += [["permb", list(p)] for p in itertools.permutations(range(3)) if list(p) != [0, 1, 2]]
    acts += [["transb", [0, 2]], ["transb", [1, 2]], ["unsqueeze1"], ["mT"], ["mul", "batchconst"]]
    return acts


def cases(tier, seed):
    cat = R.catalogue_uniform(N)
    names = list(cat)
    out = []
    for a, b in itertools.product(names + ["T"], names + ["T"]):
        if a == "T" and b == "T":
            continue
        for op in BIN_OPS:
            if op.startswith("cat") and "T" in (a, b):
                continue
            for ba, bb in BATCH_PAIRS:
                if tier == "quick" and (ba, bb) in (((), (2,)), ((1,), (2,))) and op not in ("+", "@"):
                    continue
                if op == "cat0" and not (ba and bb):
                    continue
                out.append({"kind": "bin", "op": op, "A": a, "B": b, "ba": list(ba), "bb": list(bb)})
    for a in names:
        for ba in ((), (2,), (1,), (2, 3)):
            for act in unary_actions():
                out.append({"kind": "un", "A": a, "ba": list(ba), "act": act})
    # three batch dimensions of distinct sizes: reductions over / permutations of every batch dimension
    for a in names:
        for act in rank3_actions():
            out.append({"kind": "un", "A": a, "ba": [4, 3, 2], "act": act})
    # depth 2 on concatenations (both tiers): batch-reshaping rewrites of an operator concatenated along a batch or matrix dimension
    cat_parts = ["Dense", "Diag", "Toeplitz", "Kron", "Root", "DensePSD"]
    cat_acts = [["unsqueeze0"], ["unsqueeze1"], ["squeeze0"], ["repeat2"], ["repeat21"], ["expand2"], ["expand23"], ["permute"], ["transpose01"], ["mT"],
                ["sum0"], ["mul", "pyfloat"], ["mul", "batchconst"], ["add_jitter"], ["to_dense"]]
    for a, b in itertools.product(cat_parts, cat_parts):
        for op in ("cat0", "cat-2", "cat-1"):
            for ba in ((2,), (2, 3)) if op == "cat0" else ((), (2,)):
                for act in cat_acts:
                    out.append({"kind": "bin", "op": op, "A": a, "B": b, "ba": list(ba), "bb": list(ba), "then": act})
    if tier == "thorough":
        # depth 2: every unary rewrite on top of binary results (equal batch pairs; partners restricted to a
        # representative set so that every (result type, unary action) pair occurs)
        partners = ["Dense", "DensePSD", "Diag", "ConstDiag", "Root", "Kron", "Zero", "Identity", "T"]
        for a in names:
            for b in partners:
                for op in ("+", "-", "*", "@"):
                    for ba in ((), (2,)):
                        for act in unary_actions():
                            out.append({"kind": "bin", "op": op, "A": a, "B": b, "ba": list(ba), "bb": list(ba), "then": act})
    return out


def bounds(tier):
    return {"N": N, "heads": list(R.catalogue_uniform(N)), "batch_pairs": [str(p) for p in BATCH_PAIRS], "binary_ops": BIN_OPS,
            "unary_actions": len(unary_actions()), "depth": 1 if tier == "quick" else 2}


# ---- evaluation --------------------------------------------------------------------------------------
def _tensor(shape, tag):
    g = torch.Generator()
    g.manual_seed(abs(hash(tag)) % (2**31))
    t = torch.randint(-2, 3, tuple(shape), generator=g).to(DT)
    return t + (t.abs().sum() == 0).to(DT)


def _pd_tensor(batch, n, tag):
    b = _tensor((*batch, n, n), tag)
    return b @ b.mT + n * torch.eye(n, dtype=DT)


def build_operand(name, batch, tag):
    """-> (impl value, dense twin, pd flag, head) ; tensors are their own twin."""
    if name == "T":
        t = _pd_tensor(batch, N, tag)
        return t, t.clone(), True, "T"
    cat = R.catalogue_uniform(N)
    bt, ctx = R.fresh(cat[name], dtype=DT, batch=batch, seed=env.SEED + (0 if tag == "A" else 17))
    return bt.op, bt.dense.to(DT), bool(bt.pd), cat[name][0]


def apply_bin(op, x, y):
    from linear_operator.operators import cat as lo_cat

    if op == "+":
        return x + y
    if op == "-":
        return x - y
    if op == "*":
        return x * y
    if op == "@":
        return x @ y
    dim = {"cat-2": -2, "cat-1": -1, "cat0": 0}[op]
    if torch.is_tensor(x) and torch.is_tensor(y):
        return torch.cat([x, y], dim=dim)
    return lo_cat([x, y], dim=dim)


def scalar(kind, batch):
    if kind == "pyfloat":
        return 2.0
    if kind == "pyneg":
        return -3.0
    if kind == "t0":
        return torch.tensor(2.0, dtype=DT)
    if kind == "neg":
        return torch.tensor(-2.0, dtype=DT)
    if kind == "zero":
        return torch.tensor(0.0, dtype=DT)
    if kind == "batchconst":
        return (torch.arange(1, 1 + int(torch.Size(batch).numel()), dtype=DT)).reshape(*batch, 1, 1) if batch else torch.tensor([[3.0]], dtype=DT)
    if kind == "batchmixed":
        v = torch.arange(1, 1 + int(torch.Size(batch).numel()), dtype=DT) * torch.tensor([-1.0, 1.0], dtype=DT).repeat(8)[: int(torch.Size(batch).numel())]
        return v.reshape(*batch, 1, 1) if batch else torch.tensor([[-3.0]], dtype=DT)
    raise ValueError(kind)


def apply_un(act, x, dense, pd):
    """returns (impl thunk, twin thunk, needs_pd)"""
    a = act[0]
    batch = tuple(dense.shape[:-2])
    n = dense.shape[-1]
    if a in ("mul", "rmul", "div"):
        s = scalar(act[1], batch)
        if a == "mul":
            return (lambda: x * s), (lambda: dense * s), False
        if a == "rmul":
            return (lambda: s * x), (lambda: s * dense), False
        return (lambda: x / s), (lambda: dense / s), False
    if a == "neg":
        return (lambda: -x), (lambda: -dense), False
    if a == "mT":
        return (lambda: x.mT), (lambda: dense.mT), False
    if a == "transpose01":
        return (lambda: x.transpose(0, 1)), (lambda: dense.transpose(0, 1) if len(batch) >= 2 else _refuse()), False
    if a == "permute":
        return (lambda: x.permute(1, 0, 2, 3)), (lambda: dense.permute(1, 0, 2, 3)), False
    if a == "unsqueeze0":
        return (lambda: x.unsqueeze(0)), (lambda: dense.unsqueeze(0)), False
    if a == "unsqueeze1":
        return (lambda: x.unsqueeze(1)), (lambda: dense.unsqueeze(1) if len(batch) >= 1 else _refuse()), False
    if a == "squeeze0":
        return (lambda: x.squeeze(0)), (lambda: dense.squeeze(0) if len(batch) >= 1 and batch[0] == 1 else _refuse()), False
    if a == "expand2":
        return (lambda: x.expand(2, *dense.shape[-2:])), (lambda: dense.expand(2, *dense.shape[-2:])), False
    if a == "expand23":
        return (lambda: x.expand(2, 3, *dense.shape[-2:])), (lambda: dense.expand(2, 3, *dense.shape[-2:])), False
    if a == "repeat2":
        return (lambda: x.repeat(2, 1, 1)), (lambda: dense.repeat(2, 1, 1) if len(batch) <= 1 else _refuse()), False
    if a == "repeat21":
        return (lambda: x.repeat(2, 1, 1, 1)), (lambda: dense.repeat(2, 1, 1, 1) if len(batch) <= 2 else _refuse()), False
    if a == "sum0":
        return (lambda: x.sum(0)), (lambda: dense.sum(0) if len(batch) >= 1 else _refuse()), False
    if a == "sum-3":
        return (lambda: x.sum(-3)), (lambda: dense.sum(-3) if len(batch) >= 1 else _refuse()), False
    if a == "sumd":  # reduction over an arbitrary (positive or negative) batch dimension
        d = act[1]
        return (lambda: x.sum(d)), (lambda: dense.sum(d) if 0 <= d < len(batch) or -dense.ndim <= d < -2 else _refuse()), False
    if a == "prodd":
        d = act[1]
        return (lambda: x.prod(d)), (lambda: dense.prod(d) if len(batch) > d >= 0 else _refuse()), True
    if a == "permb":  # arbitrary permutation of the batch dimensions
        p = tuple(act[1]) + (len(act[1]), len(act[1]) + 1)
        return (lambda: x.permute(*p)), (lambda: dense.permute(*p) if len(batch) == len(act[1]) else _refuse()), False
    if a == "transb":
        i, j = act[1]
        return (lambda: x.transpose(i, j)), (lambda: dense.transpose(i, j) if len(batch) > max(i, j) else _refuse()), False
    if a == "prod0":
        return (lambda: x.prod(0)), (lambda: dense.prod(0) if len(batch) >= 1 else _refuse()), True
    if a == "add_jitter":
        return (lambda: x.add_jitter(0.5)), (lambda: dense + 0.5 * torch.eye(n, dtype=DT)), False
    if a == "add_diagonal":
        dk = act[1]
        d = {"t0": torch.tensor(2.0, dtype=DT), "one": torch.tensor([3.0], dtype=DT), "n": torch.arange(1.0, n + 1, dtype=DT),
             "bn": (torch.arange(1.0, 1 + n * max(1, int(torch.Size(batch).numel())), dtype=DT)).reshape(*batch, n) if batch else None,
             "b1": (torch.arange(1.0, 1 + max(1, int(torch.Size(batch).numel())), dtype=DT)).reshape(*batch, 1) if batch else None}[dk]
        if d is None:
            return (lambda: None), _refuse, False
        def diag_twin():
            if d.dim() == 0:
                full = d.expand(*batch, n)
            elif d.shape[-1] == 1:
                full = d.expand(*batch, 1).expand(*batch, n)
            else:
                full = d.expand(*batch, n)
            return dense + torch.diag_embed(full)
        return (lambda: x.add_diagonal(d)), diag_twin, False
    if a == "add_low_rank":
        V = _tensor((*batch, n, 2), "lowrank")
        return (lambda: x.add_low_rank(V)), (lambda: dense + V @ V.mT), True
    if a == "cat_rows":
        cross = _tensor((*batch, 2, n), "cross")
        new = _pd_tensor(batch, 2, "new") + 40 * torch.eye(2, dtype=DT)

        def twin():
            top = torch.cat([dense, cross.mT], -1)
            bot = torch.cat([cross, new], -1)
            return torch.cat([top, bot], -2)
        return (lambda: x.cat_rows(cross, new)), twin, True
    if a == "to_dense":
        return (lambda: x.to_dense()), (lambda: dense), False
    if a == "clone":
        return (lambda: x.clone()), (lambda: dense.clone()), False
    if a == "detach":
        return (lambda: x.detach()), (lambda: dense.detach()), False
    raise ValueError(a)


def _refuse():
    raise RuntimeError("twin: action not defined for this batch shape")


def type_tree(x, depth=0):
    if torch.is_tensor(x):
        return "Tensor"
    name = type(x).__name__.replace("LinearOperator", "")
    if depth >= 2:
        return name
    subs = [type_tree(a, depth + 1) for a in getattr(x, "_args", ()) if hasattr(a, "_args")]
    return name + ("(" + ",".join(subs) + ")" if subs else "")


def judge(name, got, ref, feat, key, exact_ok=True):
    if isinstance(ref, Raised):
        return result(OOD, feat=feat, keys=[key]), None
    if isinstance(got, Raised):
        # a raise inside a *subclass* constructor reached from a rewrite is an internal consistency failure, not a
        # declaration; only the argument validation of the base constructor (_check_args) counts as explicit
        sub_ctor = got.frames and got.frames[-1][1] == "__init__" and not got.frames[-1][0].endswith("/_linear_operator.py")
        if is_explicit_unsupported(got, ALLOW) and not sub_ctor:
            return result(UNSUP, exc=got.type, msg=got.msg, feat=feat, keys=[key]), None
        return result(VIOL, kind="internal-error", exc=got.type, msg=f"{name}: {got.msg} @ {got.where()}", feat=feat, keys=[key]), None
    tt = type_tree(got)
    key = key + "|" + tt
    feat = dict(feat, result=tt.split("(")[0])
    val = got
    if not torch.is_tensor(got):
        if not hasattr(got, "to_dense"):
            return result(VIOL, kind="type", msg=f"{name}: returned {type(got).__name__}", feat=feat, keys=[key]), None
        shp = call(lambda: tuple(got.shape))
        val = call(got.to_dense)
        if isinstance(val, Raised) or isinstance(shp, Raised):
            e = val if isinstance(val, Raised) else shp
            return result(VIOL, kind="internal-error", exc=e.type, msg=f"{name} -> {tt}; densify: {e.msg} @ {e.where()}", feat=feat, keys=[key]), None
        if shp != tuple(ref.shape):
            return result(VIOL, kind="shape", msg=f"{name} -> {tt} of shape {shp}, twin gives {tuple(ref.shape)}", feat=feat, keys=[key]), None
    bad, ratio = compare(val, ref.to(val.dtype) if torch.is_tensor(val) and val.is_floating_point() else ref, inner=ref.shape[-1] if ref.dim() else 1, what=name, c=500)
    nontriv = bool(ref.numel() and ref.abs().sum() > 0)
    if bad:
        return result(VIOL, kind=bad[0], msg=f"{bad[1]} -> {tt}", feat=feat, keys=[key], nontrivial=nontriv, ratio=ratio), None
    return result(OK, feat=feat, keys=[key], nontrivial=nontriv, ratio=ratio), got


def run(case):
    ba = tuple(case["ba"])
    if case["kind"] == "un":
        built = call(build_operand, case["A"], ba, "A")
        feat = {"A": case["A"], "act": case["act"][0], "arg": case["act"][1] if len(case["act"]) > 1 else None, "nb": len(ba)}
        key = f"un|{case['A']}|{ba}|{case['act']}"
        if isinstance(built, Raised):
            return result(OOD, feat=feat, keys=[key], msg=built.msg)
        x, dense, pd, head = built
        feat["headA"] = head
        impl, twin, needs_pd = apply_un(case["act"], x, dense, pd)
        if needs_pd and not pd:
            return result(OOD, feat=feat, keys=[key])
        res, _ = judge(f"{case['act']}({case['A']}{list(ba)})", call(impl), call(twin), feat, key)
        return res
    bb = tuple(case["bb"])
    A = call(build_operand, case["A"], ba, "A")
    B = call(build_operand, case["B"], bb, "B")
    op = case["op"]
    feat = {"A": case["A"], "B": case["B"], "op": op, "ba": len(ba), "bb": len(bb), "samebatch": ba == bb}
    key = f"bin|{op}|{case['A']}|{case['B']}|{ba}|{bb}"
    if isinstance(A, Raised) or isinstance(B, Raised):
        return result(OOD, feat=feat, keys=[key], msg=str(A if isinstance(A, Raised) else B))
    x, dx, pdx, hx = A
    y, dy, pdy, hy = B
    feat.update(headA=hx, headB=hy)
    # domain guards copied from the statement: root-based operations range over PSD operands
    if op == "*" and hx != "T" and hy != "T" and not (pdx and pdy):
        return result(OOD, feat=feat, keys=[key])
    if op == "+" and (hx in ROOT_HEADS or hy in ROOT_HEADS) and not (pdx or hx in ROOT_HEADS) and not (pdy or hy in ROOT_HEADS):
        return result(OOD, feat=feat, keys=[key])
    if op == "+" and ((hx in ROOT_HEADS and not (pdy or hy in ROOT_HEADS)) or (hy in ROOT_HEADS and not (pdx or hx in ROOT_HEADS))):
        return result(OOD, feat=feat, keys=[key])
    ref = call(apply_bin, op, dx, dy)
    got = call(apply_bin, op, x, y)
    res, val = judge(f"{case['A']}{list(ba)} {op} {case['B']}{list(bb)}", got, ref, feat, key)
    if "then" not in case or val is None or res["verdict"] != OK:
        if "then" in case:
            res["trans"] = 1
        return res
    act = case["then"]
    if torch.is_tensor(val):  # operator @ tensor is a plain Tensor: there is no operator to rewrite further
        return result(OOD, feat=feat, keys=[key], trans=1, nontrivial=False)
    pd = pdx and pdy and op in ("+", "*")
    feat2 = dict(feat, act=act[0], arg=act[1] if len(act) > 1 else None, first=res["feat"].get("result"))
    impl, twin, needs_pd = apply_un(act, val, ref, pd)
    key2 = key + f"|then{act}|{res['keys'][0].split('|')[-1]}"
    if needs_pd and not pd:
        return result(OOD, feat=feat2, keys=[key2], trans=2)
    res2, _ = judge(f"{act}({case['A']}{list(ba)} {op} {case['B']}{list(bb)})", call(impl), call(twin), feat2, key2)
    res2["trans"] = 2
    return res2
