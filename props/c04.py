"""C04 - solve returns A^{-1} B whichever algorithm the library selects."""
import itertools
import warnings

import torch

from vlib import env, recipes as R
from vlib.core import OK, OOD, UNSUP, VIOL, result
from vlib.oracles import Raised, call, is_explicit_unsupported

ID = "C04"
TITLE = "solve returns A^{-1}B whichever algorithm the library selects"
TECHNIQUE = "exhaustive enumeration of (positive-definite operator term x batch x rhs shape x left factor x entry point x settings lattice x dtype) on the real solve paths; the routine actually taken is read from the library's verbose_linalg log and the result is judged by the backward error appropriate to that routine"
RULE = (
    "all PD catalogue terms and PD-preserving depth-2 nestings (+ triangular operators) x batch {(),(2,)} x rhs {vector, matrix, column, batched, broadcast} x "
    "left factor {none, L} x entry points {op.solve, torch.linalg.solve, linear_operator.solve, solve_triangular} x settings lattice {max_cholesky_size 0/default} x "
    "{fast solves on/off} x {cg_tolerance 1,1e-2,1e-4} x {preconditioner off/size 3} x {memory_efficient} x {linalg dtypes} x dtype; direct path: backward "
    "error <= c n eps (|A||X|+|B|); CG path: mean relative residual <= max(cg_tolerance,1e-5) x 1.5 and no NumericalWarning; non-trivial = n>=2; distinct = (case, rhs, entry)"
)
ASSUMPTIONS = ["integer PD alphabet (condition numbers <= ~1e2)", "the routine taken is identified from the verbose_linalg log ('Running CG' => iterative tolerance, otherwise direct)"]
CHUNK = 12
CASE_TIMEOUT = 3600
DTS = {"f64": torch.float64, "f32": torch.float32}

import linear_operator  # noqa: E402
from linear_operator.utils.warnings import NumericalWarning  # noqa: E402

LATTICE_QUICK = [
    {}, {"max_cholesky_size": 0}, {"max_cholesky_size": 0, "cg_tolerance": 1e-2}, {"max_cholesky_size": 0, "cg_tolerance": 1e-4},
    {"max_cholesky_size": 0, "cg_tolerance": 1e-4, "min_preconditioning_size": 0, "max_preconditioner_size": 3},
    {"fast_solves": False, "max_cholesky_size": 0}, {"memory_efficient": True, "max_cholesky_size": 0, "cg_tolerance": 1e-2},
    {"linalg_cholesky": "float32"},
    # thresholds between the size of a Kronecker / block component (2, 3) and of the whole operator (6, 9)
    {"max_cholesky_size": 3, "cg_tolerance": 1e-4}, {"max_cholesky_size": 5, "cg_tolerance": 1e-4},
]


def lattice(tier):
    if tier == "quick":
        return LATTICE_QUICK
    out = []
    for mcs, fs, tol, pre, me, ld in itertools.product([None, 0, 3, 5], [True, False], [1, 1e-2, 1e-4], [False, True], [False, True], [None, "float32"]):
        cfg = {}
        if mcs is not None:
            cfg["max_cholesky_size"] = mcs
        if not fs:
            cfg["fast_solves"] = False
        if tol != 1:
            cfg["cg_tolerance"] = tol
        if pre:
            cfg.update({"min_preconditioning_size": 0, "max_preconditioner_size": 3})
        if me:
            cfg["memory_efficient"] = True
        if ld:
            cfg["linalg_cholesky"] = ld
        if mcs is None and (tol != 1 or pre or me):
            continue  # CG parameters are irrelevant on the small-matrix path
        out.append(cfg)
    return out


def cases(tier, seed):
    out = []
    for name, term, kind in R.pd_terms(tier):
        depth1 = "(" not in name
        for b in ([], [2]) + (([1],) if (tier == "thorough" and "(" not in name) else ()):  # a singleton batch dimension (thorough)
            for dt in (["f64", "f32"] if depth1 else ["f64"]):
                for cfg in lattice(tier):
                    if not depth1 and tier == "quick" and cfg not in ({}, {"max_cholesky_size": 0, "cg_tolerance": 1e-4}):
                        continue
                    if dt == "f32" and cfg.get("cg_tolerance", 1) == 1e-4 and False:
                        continue
                    out.append({"name": name, "term": term, "kind": kind, "batch": b, "dt": dt, "cfg": cfg})
    # a size and spectrum (n = 24, eigenvalues 1 .. 1e3) at which CG does not converge exactly within a handful of steps: the stopping rule matters
    d24 = ["Dense", {"n": 24, "m": 24, "kind": "psd_spread"}]
    for nm, term in (("DenseSpread24", d24), ("AddedDiagSpread24", ["AddedDiag", {}, d24, ["Diag", {"n": 24}]])):
        for b in ([], [2]):
            for cfg in LATTICE_QUICK:
                out.append({"name": nm, "term": term, "kind": "pd", "batch": b, "dt": "f64", "cfg": cfg})
    return out


def bounds(tier):
    return {"n": 3, "terms": len(R.pd_terms(tier)), "batches": "(),(2,)", "settings_points": len(lattice(tier)), "rhs_kinds": ["vec", "mat", "col", "batched", "lead1", "extra"],
            "left_factor": ["none", "L (2 x n)"]}


def _t(shape, tag, dt):
    g = torch.Generator()
    g.manual_seed(abs(hash(tag)) % (2**31))
    t = torch.randint(-2, 3, tuple(shape), generator=g).to(dt)
    return t + (t.abs().sum() == 0).to(dt)


def run(case):
    dt = DTS[case["dt"]]
    batch = tuple(case["batch"])
    name = case["name"]
    built = call(R.fresh, case["term"], dtype=dt, batch=batch, seed=env.SEED)
    keyp = f"{name}|{batch}|{case['dt']}|{sorted(case['cfg'].items())}"
    head = case["term"][0]
    if isinstance(built, Raised):
        return result(OOD, feat={"name": name}, keys=[keyp + "|construct"], msg=built.msg)
    b, ctx = built
    op, dense = b.op, b.dense.to(dt)
    A64 = dense.double()
    n = dense.shape[-1]
    opb = tuple(dense.shape[:-2])
    heads = R.heads_of(case["term"])
    cfgs = case["cfg"]
    base = {"name": name, "head": head, "kind": case["kind"], "nb": len(opb), "dt": case["dt"], "cg_forced": cfgs.get("max_cholesky_size") is not None and cfgs["max_cholesky_size"] < n,
            "cfg": ",".join(f"{k}={v}" for k, v in sorted(cfgs.items())), "br": "BatchRepeat" in heads, "has_chol_inv": False}
    eps = torch.finfo(dt).eps
    if cfgs.get("linalg_cholesky") == "float32":
        eps = max(eps, torch.finfo(torch.float32).eps)
    cond = torch.linalg.cond(A64).max().item()
    Ainv64 = torch.linalg.inv(A64)
    anorm = A64.abs().amax().item() * n
    subs = []
    rhs_kinds = {"vec": (n,), "mat": (*opb, n, 2) if False else (n, 2), "col": (n, 1), "batched": (*opb, n, 2) if opb else None,
                 "lead1": (1, n, 2) if opb else None, "extra": (3, 1, n, 2)}

    def judge(label, got, Bm, Lm, feat, key, paths, warned, tol_cfg):
        Xref = torch.matmul(Ainv64, Bm.double())  # (matmul semantics: a 1-d rhs is a vector, batches broadcast)
        ref = Xref if Lm is None else Lm.double() @ Xref
        if isinstance(got, Raised):
            if is_explicit_unsupported(got, r"solve|_solve|solve_triangular|_cholesky_solve|inv_matmul|_inv_matmul"):
                return result(UNSUP, exc=got.type, msg=got.msg, feat=feat, keys=[key])
            return result(VIOL, kind="internal-error", exc=got.type, msg=f"{label}: {got.msg} @ {got.where()}", feat=feat, keys=[key])
        if not torch.is_tensor(got):
            got = call(got.to_dense)
            if isinstance(got, Raised):
                return result(VIOL, kind="internal-error", exc=got.type, msg=f"{label}: densify {got.msg}", feat=feat, keys=[key])
        if tuple(got.shape) != tuple(ref.shape):
            return result(VIOL, kind="shape", msg=f"{label}: shape {tuple(got.shape)} != {tuple(ref.shape)}", feat=feat, keys=[key])
        if got.dtype != dt:
            return result(VIOL, kind="dtype", msg=f"{label}: dtype {got.dtype} != {dt}", feat=feat, keys=[key])
        if not torch.isfinite(got).all():
            return result(VIOL, kind="nan", msg=f"{label}: NaN/Inf", feat=feat, keys=[key])
        iterative = "CG" in paths
        feat = dict(feat, path="CG" if iterative else "direct")
        err = (got.double() - ref).abs().amax().item()
        scale = max(1.0, ref.abs().amax().item())
        if iterative:
            # forward error implied by relative residual tol: |dx| <= cond * tol * |x|
            tol = max(tol_cfg, 1e-5) * 1.5 * cond * scale * (Lm.abs().amax().item() * n if Lm is not None else 1.0)
            if warned:
                return result(VIOL, kind="cg-warning", msg=f"{label}: CG finished with a non-convergence NumericalWarning (budget is ample)", feat=feat, keys=[key])
        else:
            tol = 500 * n * eps * cond * scale * (Lm.abs().amax().item() * n if Lm is not None else 1.0)
            if "Lanczos" in paths:
                # eigen-structured solve through a Lanczos eigendecomposition: exact up to the documented tridiagonal jitter
                tol = max(tol, 10 * env.settings.tridiagonal_jitter.value() * cond * scale * (Lm.abs().amax().item() * n if Lm is not None else 1.0))
                feat = dict(feat, path="lanczos-eig")
        if err > tol:
            return result(VIOL, kind="value", msg=f"{label}: max error {err:.3g} > {tol:.3g} ({'CG' if iterative else 'direct'} path {sorted(paths)}, cond {cond:.3g})", feat=feat, keys=[key], ratio=err / tol)
        return result(OK, feat=feat, keys=[key], ratio=err / tol)

    def attempt(label, fn, Bm, Lm, feat, key):
        # the operator is constructed under default settings (construction is not the subject here), a fresh one per
        # entry point (caches are the subject of C12); the configuration applies to the solve
        env.settings_restore()
        opn = call(R.fresh, case["term"], dtype=dt, batch=batch, seed=env.SEED)
        if isinstance(opn, Raised):
            subs.append(result(OOD, feat=feat, keys=[key]))
            return
        opn = opn[0].op
        env.set_settings(dict(cfgs, verbose_linalg=True))
        env.linalg_paths()
        with warnings.catch_warnings(record=True) as wl:
            warnings.simplefilter("always")
            got = call(fn, opn)
        paths = env.linalg_paths()
        warned = any(issubclass(w.category, NumericalWarning) and "CG terminated" in str(w.message) for w in wl)
        subs.append(judge(label, got, Bm, Lm, feat, key, paths, warned, cfgs.get("cg_tolerance", 1)))

    for rk, shp in rhs_kinds.items():
        if shp is None:
            continue
        Bm = _t(shp, f"B{rk}{n}", dt)
        if torch.broadcast_shapes(opb, Bm.shape[:-2] if Bm.dim() > 1 else ()) is None:
            continue
        f = dict(base, rhs=rk, entry="solve", left=False)
        # every entry point on a fresh operator (caches are the subject of C12)
        attempt(f"solve[{rk}]", lambda o: o.solve(Bm), Bm, None, f, f"{keyp}|solve|{rk}")
        if rk in ("mat", "batched"):
            Lm = _t((*opb, 2, n) if rk == "batched" else (2, n), f"L{n}", dt)
            attempt(f"solve[{rk}, left]", lambda o: o.solve(Bm, Lm), Bm, Lm, dict(base, rhs=rk, entry="solve", left=True), f"{keyp}|solve-left|{rk}")
        if rk in ("mat", "vec"):
            attempt(f"torch.linalg.solve[{rk}]", lambda o: torch.linalg.solve(o, Bm), Bm, None, dict(base, rhs=rk, entry="torch.linalg.solve", left=False), f"{keyp}|tls|{rk}")
        if rk == "mat":
            attempt("linear_operator.solve[mat]", lambda o: linear_operator.solve(o, Bm), Bm, None, dict(base, rhs=rk, entry="lo.solve", left=False), f"{keyp}|lo|{rk}")
            if b.tri in ("lower", "upper") and hasattr(op, "solve_triangular") and case["kind"] == "tri":
                up = b.tri == "upper"
                attempt("solve_triangular[mat]", lambda o: o.solve_triangular(Bm, upper=up), Bm, None, dict(base, rhs=rk, entry="solve_triangular", left=False), f"{keyp}|tri|{rk}")
    # the inverse of a Cholesky operator
    if head == "Chol":
        Bm = _t((n, 2), "Binv", dt)
        inv = call(lambda: R.fresh(case["term"], dtype=dt, batch=batch, seed=env.SEED)[0].op.inverse())
        f = dict(base, rhs="mat", entry="inverse().solve", left=False, has_chol_inv=True)
        if not isinstance(inv, Raised):
            env.set_settings(cfgs)
            got = call(lambda: inv.solve(Bm))
            ref = A64 @ Bm.double()
            if isinstance(got, Raised):
                subs.append(result(VIOL, kind="internal-error", exc=got.type, msg=f"Chol.inverse().solve: {got.msg} @ {got.where()}", feat=f, keys=[keyp + "|inv"]))
            else:
                err = (got.double() - ref).abs().amax().item()
                tol = 500 * n * eps * cond * max(1.0, ref.abs().amax().item())
                subs.append(result(VIOL, kind="value", msg=f"Chol.inverse().solve(B) differs from A B by {err:.3g}", feat=f, keys=[keyp + "|inv"]) if err > tol else result(OK, feat=f, keys=[keyp + "|inv"], ratio=err / tol))
            gd = call(inv.to_dense)
            refi = torch.linalg.inv(A64)
            if isinstance(gd, Raised) or (gd.double() - refi).abs().amax().item() > 500 * n * eps * cond * max(1.0, refi.abs().amax().item()):
                subs.append(result(VIOL, kind="value", msg="Chol.inverse().to_dense() differs from A^-1", feat=dict(f, entry="inverse().to_dense"), keys=[keyp + "|invd"]))
            else:
                subs.append(result(OK, feat=dict(f, entry="inverse().to_dense"), keys=[keyp + "|invd"]))
    # solves through the factor objects the library itself hands out: CholLinearOperator(A.cholesky(upper), upper), the factor's own
    # triangular solve, and the operator returned by root_decomposition()
    if case["kind"] == "pd" and not case["cfg"] and dt == torch.float64:
        from linear_operator.operators import CholLinearOperator

        Bm = _t((n, 2), "Bfac", dt)
        Lm = _t((2, n), "Lfac", dt)
        Ainv = torch.linalg.inv(A64)
        tolf = 500 * n * eps * cond * max(1.0, (Ainv @ Bm).abs().amax().item())

        def derived(label, build_fn, ref_fn, extra):
            f = dict(base, rhs="mat", entry=label, left=False, **extra)
            env.settings_restore()
            with warnings.catch_warnings():
                warnings.simplefilter("ignore")
                got = call(lambda: build_fn(R.fresh(case["term"], dtype=dt, batch=batch, seed=env.SEED)[0].op))
            k = f"{keyp}|{label}|{sorted(extra.items())}"
            if isinstance(got, Raised):
                if is_explicit_unsupported(got, r".*"):
                    subs.append(result(UNSUP, exc=got.type, msg=got.msg, feat=f, keys=[k]))
                else:
                    subs.append(result(VIOL, kind="internal-error", exc=got.type, msg=f"{label}: {got.msg} @ {got.where()}", feat=f, keys=[k]))
                return
            ref = ref_fn()
            if tuple(got.shape) != tuple(ref.shape):
                subs.append(result(VIOL, kind="shape", msg=f"{label}: shape {tuple(got.shape)} vs {tuple(ref.shape)}", feat=f, keys=[k]))
                return
            err = (got.double() - ref).abs().amax().item()
            subs.append(result(VIOL, kind="value", msg=f"{label} differs from the dense reference by {err:.3g} (tol {tolf:.3g})", feat=f, keys=[k], ratio=err / tolf)
                        if not err <= tolf else result(OK, feat=f, keys=[k], ratio=err / tolf))

        for up in (False, True):
            Ld = torch.linalg.cholesky(A64)
            Fd = Ld.mT if up else Ld
            derived("Chol(A.cholesky(upper), upper).solve", lambda o, up=up: CholLinearOperator(o.cholesky(upper=up), upper=up).solve(Bm), lambda: Ainv @ Bm, {"upper": up})
            derived("Chol(A.cholesky(upper), upper).solve[left]", lambda o, up=up: CholLinearOperator(o.cholesky(upper=up), upper=up).solve(Bm, Lm), lambda: Lm @ Ainv @ Bm, {"upper": up})
            # (a triangular factor is not unique - its diagonal may be negative -: the reference inverts the factor that was returned;
            # that it factorizes A is C06's business)
            def fac_solve(o, up=up, left=False):
                F = o.cholesky(upper=up)
                Fd_ = F.to_dense().double()
                ref_ = torch.linalg.inv(Fd_) @ Bm
                got_ = F.solve(Bm, Lm) if left else F.solve(Bm)
                return got_.double() - ((Lm @ ref_) if left else ref_)
            derived("A.cholesky(upper).solve", lambda o, up=up: fac_solve(o, up), lambda: torch.zeros(*opb, n, 2, dtype=torch.float64), {"upper": up})
            derived("A.cholesky(upper).solve[left]", lambda o, up=up: fac_solve(o, up, True), lambda: torch.zeros(*opb, 2, 2, dtype=torch.float64), {"upper": up})
            derived("Chol(A.cholesky(upper), upper).inv_quad", lambda o, up=up: CholLinearOperator(o.cholesky(upper=up), upper=up).inv_quad(Bm), lambda: (Bm * (Ainv @ Bm)).sum((-2, -1)), {"upper": up})
        derived("A.root_decomposition().solve", lambda o: o.root_decomposition().solve(Bm), lambda: Ainv @ Bm, {})
        derived("A.add_jitter(0).solve", lambda o: o.add_jitter(0.0).solve(Bm), lambda: Ainv @ Bm, {})
    return result(sub=subs, trans=len(subs) + 1)
