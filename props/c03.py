"""C03 - indexing and diagonal extraction match torch indexing of the dense matrix."""
import itertools

import torch

from vlib import env, recipes as R
from vlib.core import OK, OOD, UNSUP, VIOL, result
from vlib.oracles import Raised, call, compare, is_explicit_unsupported

ID = "C03"
TITLE = "Indexing and diagonal extraction match torch indexing of the dense matrix"
TECHNIQUE = "exhaustive enumeration of index tuples (per-dimension alphabet of ints/slices/ellipsis/index tensors, all positions) x operator terms x batch shapes x debug on/off on the real __getitem__, compared with torch indexing of the dense denotation"
RULE = (
    "every index tuple of length <= ndim over the per-dimension alphabet (ints incl. negative, non-empty slices incl. "
    "negative/stepped/over-long/stop==size, one Ellipsis, 0-d/1-d LongTensor, list, broadcasting rank-2 LongTensors) x "
    "every catalogue term (all tuples) and depth-2 nesting (reduced alphabet) x batch shapes x debug {on,off}; plus diagonal(); "
    "non-trivial = the index is not the full no-op slice and the reference result is non-empty; distinct = (term,batch,debug,index)"
)
ASSUMPTIONS = ["leaf values are generic reals (all matrix entries distinct) so a wrong element is always a wrong value",
               "torch indexing of the dense denotation defines the expected result; cases torch refuses are out of domain"]
CHUNK = 8
CASE_TIMEOUT = 7200
ALLOW = r"__getitem__|_getitem|_get_indices|_split_slice|_x_getitem|diagonal|_diagonal|_convert_indices_to_tensors|_compute_getitem_size"


# ---- index alphabet ----------------------------------------------------------------------------
def dim_alphabet(s, level):
    """level 2 = full, 1 = reduced (8), 0 = small (5)."""
    ints = [["i", 0], ["i", s - 1], ["i", -1], ["i", -s]]
    slices = [["s", None, None, None], ["s", 0, s, None], ["s", 1, None, None], ["s", None, -1, None],
              ["s", -2, None, None], ["s", None, None, 2], ["s", 1, None, 2], ["s", 0, 100, None], ["s", s - 1, s, None],
              # interior slices: start not aligned to a block boundary while the length is (block-structured operators take shortcuts on aligned slices)
              ["s", 1, s - 1, None], ["s", 2, s, None], ["s", 1, 3, None]]
    tens = [["z", min(1, s - 1)], ["t", [0]], ["t", [0, s - 1]], ["t", [s - 1, 0, 0]], ["l", [0, s - 1]]]
    if level == 2:
        al = ints + slices + tens
    elif level == 1:
        al = [["i", 0], ["i", -1], ["s", None, None, None], ["s", 1, None, None], ["s", None, -1, None], ["s", 0, s, None],
              ["s", None, None, 2], ["s", 1, s - 1, None], ["t", [0, s - 1]], ["t", [s - 1, 0, 0]]]
    else:
        al = [["i", -1], ["s", None, None, None], ["s", 1, None, None], ["s", 0, s, None], ["t", [s - 1, 0, 0]]]
    out = []
    for a in al:  # drop slices that select nothing, dedupe
        if a[0] == "s" and len(range(s)[slice(a[1], a[2], a[3])]) == 0:
            continue
        if a not in out:
            out.append(a)
    return out


def index_tuples(shape, level):
    nd = len(shape)
    als = [dim_alphabet(s, level if nd <= 2 or level == 0 else min(level, 1)) for s in shape]
    out = []
    # plain tuples of every length 1..nd
    for ln in range(1, nd + 1):
        for tup in itertools.product(*als[:ln]):
            out.append(list(tup))
    # one ellipsis: `k` explicit leading entries, ellipsis, `j` explicit trailing entries (aligned to the end)
    small = [dim_alphabet(s, 0) for s in shape]
    for k in range(0, nd):
        for j in range(0, nd - k + 1):
            if k + j > nd:
                continue
            lead = small[:k]
            trail = small[nd - j:] if j else []
            for tup in itertools.product(*lead, *trail):
                out.append(list(tup[:k]) + [["e"]] + list(tup[k:]))
    # mutually broadcasting rank-2 tensors in >= 2 positions, one of them a matrix position
    for pos in itertools.combinations(range(nd), 2):
        if pos[1] < nd - 2:
            continue
        a = [[0], [shape[pos[0]] - 1]]  # (2,1)
        b = [[0, shape[pos[1]] - 1, 0]]  # (1,3)
        tup = [["s", None, None, None]] * nd
        tup = [list(x) for x in tup]
        tup[pos[0]] = ["T", a]
        tup[pos[1]] = ["T", b]
        out.append(tup)
        if nd >= 3:  # with an int / 1-d tensor in the remaining position
            for other in range(nd):
                if other not in pos:
                    for extra in (["i", 0], ["t", [0, shape[other] - 1]] if False else ["i", -1]):
                        t2 = [list(x) for x in tup]
                        t2[other] = extra
                        out.append(t2)
    if nd >= 3:  # three tensors
        tup = [["T", [[0], [shape[0] - 1]]]] + [["s", None, None, None]] * (nd - 3) + [["T", [[0, shape[-2] - 1, 0]]], ["t", [shape[-1] - 1, 0, 0]]]
        out.append(tup)
    # dedupe
    seen, res = set(), []
    for t in out:
        k = repr(t)
        if k not in seen:
            seen.add(k)
            res.append(t)
    return res


def decode(tup):
    out = []
    for e in tup:
        k = e[0]
        if k == "i":
            out.append(e[1])
        elif k == "s":
            out.append(slice(e[1], e[2], e[3]))
        elif k == "e":
            out.append(Ellipsis)
        elif k == "z":
            out.append(torch.tensor(e[1]))
        elif k in ("t", "T"):
            out.append(torch.tensor(e[1], dtype=torch.long))
        elif k == "l":
            out.append(list(e[1]))
    return tuple(out)


def pattern(tup, nd):
    """position-wise type pattern after ellipsis expansion, e.g. 'b:t|r:i-|c:s' (used by finding signatures)."""
    codes = []
    for e in tup:
        k = e[0]
        if k == "i":
            codes.append("i-" if e[1] < 0 else "i+")
        elif k == "s":
            full = e[1] is None and e[2] is None and e[3] is None
            codes.append(":" if full else ("S" if e[3] is not None else ("s=" if e[2] is not None and e[2] > 0 else "s")))
        else:
            codes.append({"e": "e", "z": "z", "t": "t", "T": "T", "l": "l"}[k])
    if "e" in codes:
        i = codes.index("e")
        codes = codes[:i] + [":"] * (nd - (len(codes) - 1)) + codes[i + 1:]
    codes = codes + [":"] * (nd - len(codes))
    names = ["b"] * (nd - 2) + ["r", "c"]
    return "|".join(f"{n}:{c}" for n, c in zip(names, codes))


# ---- cases ---------------------------------------------------------------------------------------
def cases(tier, seed):
    out = []
    cat = R.catalogue(3)
    nest = R.nestings(3)
    batches = [[], [2]] if tier == "quick" else [[], [2], [2, 3]]
    for name, term in list(cat.items()) + list(nest.items()):
        depth1 = "(" not in name
        for b in batches:
            if not depth1 and (len(b) == 2 or (tier == "quick" and b)):
                continue
            lvl = (2 if depth1 else 0) if tier == "quick" else (2 if depth1 else 1)
            if len(b) == 2:
                lvl = 1
            if not depth1 and "BatchRepeat" in name:
                lvl = 0  # (every index of these fails through a deep recursion: known finding, very slow)
            for dbg in (True, False):
                if not depth1 and tier == "quick" and not dbg:
                    continue
                out.append({"name": name, "term": term, "batch": b, "debug": dbg, "level": lvl})
    return out


def bounds(tier):
    return {"n": 3, "nesting_depth": 2, "batches": "(),(2,) [+ (2,3) thorough]",
            "alphabet_per_dim": {"full": 18, "reduced": 9, "small": 5},
            "levels": "depth-1 terms: full alphabet on 2-D, reduced on >=3-D; depth-2: small (quick) / reduced (thorough)",
            "debug": [True, False]}


def run(case):
    batch = tuple(case["batch"])
    head = case["term"][0]
    dt = torch.float64
    built = call(R.fresh, case["term"], dtype=dt, batch=batch, seed=env.SEED, values="real")
    keyp = f"{case['name']}|{batch}|{case['debug']}"
    if isinstance(built, Raised):
        if built.type == "NotApplicable":
            built = call(R.fresh, case["term"], dtype=torch.float32, batch=batch, seed=env.SEED, values="real")
            dt = torch.float32
    if isinstance(built, Raised):
        return result(OOD, feat={"head": head, "name": case["name"]}, keys=[keyp + "|construct"], msg=built.msg)
    b, ctx = built
    op, dense = b.op, b.dense.to(dt)
    heads = R.heads_of(case["term"])
    base = {"head": head, "name": case["name"], "nb": len(dense.shape) - 2, "debug": case["debug"], "has_zero": "Zero" in heads,
            "br_rect": R.has_rect_batch_repeat(case["term"]), "has_cat": "Cat" in heads, "has_chol": "Chol" in heads}
    subs = []
    env.set_settings({"debug": case["debug"]})
    nd = dense.dim()
    for tup in index_tuples(tuple(dense.shape), case["level"]):
        idx = decode(tup)
        pat = pattern(tup, nd)
        feat = dict(base, pat=pat)
        key = keyp + "|" + repr(tup)
        ref = call(lambda: dense[idx])
        if isinstance(ref, Raised) or ref.numel() == 0:
            subs.append(result(OOD, feat=feat, keys=[key]))
            continue
        got = call(lambda: op[idx])
        trivial = all(e[0] == "s" and e[1] is None and e[2] is None and e[3] is None or e[0] == "e" for e in tup)
        if isinstance(got, Raised):
            if is_explicit_unsupported(got, ALLOW):
                subs.append(result(UNSUP, exc=got.type, msg=got.msg, feat=feat, keys=[key]))
            else:
                subs.append(result(VIOL, kind="internal-error", exc=got.type, msg=f"op[{tup}]: {got.msg} @ {got.where()}", feat=feat, keys=[key], nontrivial=not trivial))
            continue
        if not torch.is_tensor(got):
            shp = call(lambda: tuple(got.shape))
            gd = call(got.to_dense)
            if isinstance(gd, Raised) or isinstance(shp, Raised):
                e = gd if isinstance(gd, Raised) else shp
                subs.append(result(VIOL, kind="internal-error", exc=e.type, msg=f"op[{tup}] -> {type(got).__name__}; densify: {e.msg} @ {e.where()}", feat=feat, keys=[key], nontrivial=not trivial))
                continue
            if shp != tuple(ref.shape):
                subs.append(result(VIOL, kind="shape", msg=f"op[{tup}] -> operator of shape {shp}, torch gives {tuple(ref.shape)}", feat=feat, keys=[key], nontrivial=not trivial))
                continue
            got = gd
        bad, ratio = compare(got, ref, what=f"op[{tup}]", c=1e3)
        if bad:
            subs.append(result(VIOL, kind=bad[0], msg=bad[1], feat=feat, keys=[key], nontrivial=not trivial, ratio=ratio))
        else:
            subs.append(result(OK, feat=feat, keys=[key], nontrivial=not trivial, ratio=ratio))
    # diagonal()
    if dense.shape[-1] == dense.shape[-2]:
        feat = dict(base, pat="diagonal")
        got = call(lambda: op.diagonal())
        ref = dense.diagonal(dim1=-2, dim2=-1)
        key = keyp + "|diagonal"
        if isinstance(got, Raised):
            if is_explicit_unsupported(got, ALLOW):
                subs.append(result(UNSUP, exc=got.type, msg=got.msg, feat=feat, keys=[key]))
            else:
                subs.append(result(VIOL, kind="internal-error", exc=got.type, msg=f"diagonal(): {got.msg} @ {got.where()}", feat=feat, keys=[key]))
        else:
            bad, ratio = compare(got, ref, what="diagonal()", c=1e3)
            subs.append(result(VIOL, kind=bad[0], msg=bad[1], feat=feat, keys=[key], ratio=ratio) if bad else result(OK, feat=feat, keys=[key], ratio=ratio))
    return result(sub=subs, trans=len(subs) + 1)
