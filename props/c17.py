"""C17 - settings contexts are properly scoped and never leak.

Protocol exploration on the real classes.  A *program* is a well-nested tree of events
(construct / enter / exit / exit-by-exception) over at most 3 named context objects plus inline
`with S(v):` blocks.  Every program up to the event bound is rendered as real Python source with
real `with` statements (exceptions are really raised inside the block and caught outside) and
executed against `linear_operator.settings`.  After EVERY event the observable state of EVERY
settings class (on/off/is_default/value/value(dtype)) is compared with the reference model:
a dict slot -> value plus a stack of snapshots taken at entry.
"""
import itertools
import json

import torch

from vlib import env
from vlib.core import OK, VIOL, result

ID = "C17"
TITLE = "Settings contexts are properly scoped and never leak"
TECHNIQUE = "explicit-state exhaustive enumeration of well-nested context programs executed on the real settings classes, compared state-by-state with a dict+stack reference model"
RULE = (
    "all well-nested programs of construct/enter/exit/exception-exit events (<= bound events, <= 3 named "
    "objects + inline blocks, 2 values per class) for every settings class alone and for every pair of "
    "class kinds; a program is non-trivial if it enters at least one context whose value differs from "
    "the value in force; states are distinct (slot vector, open stack, constructed objects) tuples"
)
ASSUMPTIONS = [
    "a `with` statement is the only way contexts are entered/exited (well-nested); programs are real `with` source",
    "half-precision slots are observed but half tensors are not computed with",
]
S = env.settings
CHUNK = 400


# ---- class catalogue ---------------------------------------------------------------------------
def _kind(cls):
    if issubclass(cls, S._feature_flag):
        return "flag"
    if issubclass(cls, S._value_context):
        return "value"
    return "dtype"


def catalogue():
    cat = []
    for qual, cls in env.settings_classes():
        k = _kind(cls)
        if k == "flag":
            vals = [[True], [False]]
        elif k == "value":
            cur = cls._global_value
            if isinstance(cur, torch.dtype):
                vals = [["torch.float32"], ["torch.float64"]]
            elif isinstance(cur, int):
                vals = [[cur + 5], [cur + 7]]
            else:
                vals = [[(cur or 1) * 0.5], [(cur or 1) * 0.25]]
        else:
            vals = [[0.5, None, None], [None, 0.25, 0.125], [0.75, 0.375, None]]
        cat.append({"name": qual, "kind": k, "vals": vals})
    cat.append({"name": "settings.fast_computations", "kind": "fast", "vals": [[False, True, False], [True, False, True], [False, False, False]]})
    cat.append({"name": "settings.linalg_dtypes", "kind": "linalg", "vals": [["torch.float32", None, None], ["torch.float64", "torch.float32", None], ["torch.float32", None, "torch.float64"]]})
    return cat


def _resolve(name):
    mod, attr = name.split(".")
    return getattr(S if mod == "settings" else env.beta_features, attr)


def _pyval(v):
    if isinstance(v, str) and v.startswith("torch."):
        return getattr(torch, v.split(".")[1])
    return v


# ---- program enumeration -----------------------------------------------------------------------
def programs(nspecs, budget, max_objs, with_cache=False):
    """All statement lists with <= budget events. nspecs = number of (class,value) constructor specs.
    with_cache adds the environment event "P": a computation caches probe vectors in deterministic_probes.probe_vectors."""

    def block(budget, nobj, depth, prev_p=False):
        # returns list of (stmts, nobj_after, cost)
        out = [([], nobj, 0)]
        if budget <= 0:
            return out
        firsts = []
        if nobj < max_objs:
            for sp in range(nspecs):
                firsts.append((["C", nobj, sp], nobj + 1, 1))
        if with_cache:
            firsts.append((["P"], nobj, 1))
        if budget >= 2 and depth < 3:
            targets = [["obj", i] for i in range(nobj)] + [["new", sp] for sp in range(nspecs)]
            for tg in targets:
                for body, nobj2, cost in block(budget - 2, nobj, depth + 1):
                    for ek in ("n", "x"):
                        firsts.append((["W", tg, body, ek], nobj2, cost + 2))
        for st, nobj2, cost in firsts:
            if st[0] == "P" and prev_p:
                continue  # two cache events in a row are one
            for rest, nobj3, cost2 in block(budget - cost, nobj2, depth, st[0] == "P"):
                out.append(([st] + rest, nobj3, cost + cost2))
        return out

    return [p for p, _, _ in block(budget, 0, 0) if p]


def _uses_enter(prog):
    return any(st[0] == "W" or False for st in prog)


def cases(tier, seed):
    cat = catalogue()
    single_budget = 6 if tier == "quick" else 8
    pair_budget = 5 if tier == "quick" else 6
    out = []
    # single class, two constructor specs of that class (3 for dtype/composites -> first 2 + third in thorough)
    for c in cat:
        nv = 2 if (tier == "quick" or c["kind"] in ("flag", "value")) else 3
        specs = [[c["name"], v] for v in c["vals"][:nv]]
        objs = 2 if tier == "quick" else (3 if nv == 2 else 2)
        b = single_budget if nv == 2 else single_budget - 1
        for p in programs(len(specs), b, objs):
            if _uses_enter(p):
                out.append({"specs": specs, "prog": p})
    # pairs of kinds (one representative per kind, composites with their own component classes too)
    reps = {}
    for c in cat:
        reps.setdefault(c["kind"], c)
    byname = {c["name"]: c for c in cat}
    pair_list = [(a, b) for a, b in itertools.combinations(sorted(reps), 2)]
    pairs = [(reps[a], reps[b]) for a, b in pair_list]
    pairs.append((byname["settings.fast_computations"], byname["settings._fast_solves"]))
    pairs.append((byname["settings.fast_computations"], byname["settings._fast_log_prob"]))
    pairs.append((byname["settings.linalg_dtypes"], byname["settings._linalg_dtype_cholesky"]))
    pairs.append((byname["settings.max_cholesky_size"], byname["settings.max_cg_iterations"]))
    pairs.append((byname["settings.cholesky_jitter"], byname["settings.cholesky_jitter"]))
    for a, b in pairs:
        specs = [[a["name"], a["vals"][0]], [b["name"], b["vals"][1]]]
        if a["name"] == b["name"]:
            specs = [[a["name"], a["vals"][0]], [a["name"], a["vals"][1]], [a["name"], a["vals"][2]]]
        for p in programs(len(specs), pair_budget, 2):
            if _uses_enter(p):
                out.append({"specs": specs, "prog": p})
    # side state of deterministic_probes: the probe cache is reset whenever the flag's state is set (every entry and every exit),
    # so that probes cached outside a block are never used inside it and probes cached inside never survive it
    dp = "settings.deterministic_probes"
    side = [
        ([[dp, [True]], [dp, [False]]], min(single_budget, 7), 2),  # (the cache event widens the alphabet: one event less than the
        ([[dp, [True]], ["settings._fast_solves", [False]]], min(pair_budget + 1, 6), 2),  # plain thorough programs keeps the tier's run time)
        ([[dp, [True]], ["settings.fast_computations", [False, True, False]]], pair_budget, 1),
    ]
    for specs, b, objs in side:
        for p in programs(len(specs), b, objs, with_cache=True):
            if _uses_enter(p) and _has_cache(p):
                out.append({"specs": specs, "prog": p})
    return out


def _has_cache(prog):
    return any(st[0] == "P" or (st[0] == "W" and _has_cache(st[2])) for st in prog)


def bounds(tier):
    return {
        "events_single_class": 6 if tier == "quick" else 8,
        "events_two_classes": 5 if tier == "quick" else 6,
        "named_objects": "<=2 quick / <=3 thorough",
        "nesting_depth": 3,
        "classes": [c["name"] for c in catalogue()],
        "exit_kinds": ["normal", "exception raised inside the block"],
        "side_state": "deterministic_probes.probe_vectors with a 'probes cached' environment event at every position (<= 6 events quick, <= 7 thorough)",
    }


# ---- reference model -----------------------------------------------------------------------------
class Model:
    def __init__(self):
        self.slots = dict(env.PRISTINE)
        self.stack = []
        self.probes_cached = False

    @staticmethod
    def governed(name, vals):
        """slots an object of this class writes on entry -> value (None = leave alone for dtype ctx)."""
        cls = _resolve(name)
        k = _kind(cls) if name not in ("settings.fast_computations", "settings.linalg_dtypes") else name
        if k == "flag":
            return {(name, "_state"): vals[0]}, False
        if k == "value":
            return {(name, "_global_value"): _pyval(vals[0])}, False
        if k == "dtype":
            return {
                (name, "_global_float_value"): vals[0],
                (name, "_global_double_value"): vals[1],
                (name, "_global_half_value"): vals[2],
            }, True
        if k == "settings.fast_computations":
            return {
                ("settings._fast_covar_root_decomposition", "_state"): vals[0],
                ("settings._fast_log_prob", "_state"): vals[1],
                ("settings._fast_solves", "_state"): vals[2],
            }, False
        default, sym, chol = (_pyval(v) for v in vals)
        return {
            ("settings._linalg_dtype_symeig", "_global_value"): default if sym is None else sym,
            ("settings._linalg_dtype_cholesky", "_global_value"): default if chol is None else chol,
        }, False

    def enter(self, name, vals):
        gov, skip_none = self.governed(name, vals)
        self.stack.append({k: self.slots[k] for k in gov})
        if ("settings.deterministic_probes", "_state") in gov:
            self.probes_cached = False
        for k, v in gov.items():
            if skip_none and v is None:
                continue
            self.slots[k] = v

    def exit(self):
        prev = self.stack.pop()
        if ("settings.deterministic_probes", "_state") in prev:
            self.probes_cached = False
        self.slots.update(prev)


def observe():
    """Observable state of every settings class through its public accessors."""
    obs = {}
    for qual, cls in env.settings_classes():
        k = _kind(cls)
        if k == "flag":
            obs[qual] = (cls.on(), cls.off(), cls.is_default())
        elif k == "value":
            obs[qual] = (cls.value(),)
        else:
            obs[qual] = (cls.value(torch.float), cls.value(torch.double), cls.value(torch.half))
    obs["settings.deterministic_probes.probe_vectors"] = (S.deterministic_probes.probe_vectors is not None,)
    return obs


def model_observe(m):
    obs = {}
    for qual, cls in env.settings_classes():
        k = _kind(cls)
        if k == "flag":
            st = m.slots[(qual, "_state")]
            on = cls._default if st is None else st
            obs[qual] = (on, not on, st is None)
        elif k == "value":
            obs[qual] = (m.slots[(qual, "_global_value")],)
        else:
            obs[qual] = tuple(m.slots[(qual, s)] for s in ("_global_float_value", "_global_double_value", "_global_half_value"))
    obs["settings.deterministic_probes.probe_vectors"] = (m.probes_cached,)
    return obs


# ---- rendering to real `with` source ---------------------------------------------------------------
def render(specs, prog):
    lines = []
    ev = [0]

    def ctor(sp):
        name, vals = specs[sp]
        mod, attr = name.split(".")
        args = ", ".join(v if isinstance(v, str) and v.startswith("torch.") else repr(v) for v in vals)
        return f"{'S' if mod == 'settings' else 'BF'}.{attr}({args})"

    def emit(stmts, ind):
        pad = "    " * ind
        for st in stmts:
            if st[0] == "C":
                lines.append(f"{pad}c{st[1]} = {ctor(st[2])}")
                lines.append(f"{pad}EV('construct', {st[2]})")
            elif st[0] == "P":
                lines.append(f"{pad}S.deterministic_probes.probe_vectors = torch.ones(3, 2)")
                lines.append(f"{pad}EV('cache', None)")
            else:
                _, tg, body, ek = st
                target = f"c{tg[1]}" if tg[0] == "obj" else ctor(tg[1])
                spec_expr = f"SPEC_OF['c{tg[1]}']" if tg[0] == "obj" else str(tg[1])
                if tg[0] == "new":
                    lines.append(f"{pad}EV('construct', {tg[1]})")
                lines.append(f"{pad}try:")
                lines.append(f"{pad}    with {target}:")
                lines.append(f"{pad}        EV('enter', {spec_expr})")
                emit(body, ind + 2)
                if ek == "x":
                    lines.append(f"{pad}        raise Boom()")
                else:
                    lines.append(f"{pad}        pass")
                lines.append(f"{pad}except Boom:")
                lines.append(f"{pad}    pass")
                lines.append(f"{pad}EV('exit', None)")

    emit(prog, 0)
    return "\n".join(lines)


class Boom(Exception):
    pass


def run(case):
    specs, prog = case["specs"], case["prog"]
    src = render(specs, prog)
    m = Model()
    spec_of = {}
    keys = []
    bad = []
    nontrivial = [False]
    nevents = [0]
    constructed = []

    def walk_bind(stmts):
        for st in stmts:
            if st[0] == "C":
                spec_of[f"c{st[1]}"] = st[2]
            elif st[0] == "W":
                walk_bind(st[2])

    walk_bind(prog)

    def EV(kind, sp):
        nevents[0] += 1
        if kind == "construct":
            constructed.append(sp)
        elif kind == "enter":
            name, vals = specs[sp]
            before = dict(m.slots)
            m.enter(name, vals)
            if m.slots != before:
                nontrivial[0] = True
        elif kind == "exit":
            m.exit()
        elif kind == "cache":
            m.probes_cached = True
            nontrivial[0] = True
        got, want = observe(), model_observe(m)
        key = json.dumps([sorted((f"{k[0]}.{k[1]}", repr(v)) for k, v in m.slots.items() if env.PRISTINE[k] != v),
                          len(m.stack), constructed, m.probes_cached], default=str)
        keys.append(env_hash(key + json.dumps(specs, default=str)))
        if got != want and not bad:
            diff = {q: (repr(got[q]), repr(want[q])) for q in got if got[q] != want[q]}
            bad.append((nevents[0], kind, diff))

    ns = {"S": S, "BF": env.beta_features, "EV": EV, "Boom": Boom, "SPEC_OF": spec_of, "torch": torch}
    exec(compile(src, "<c17-program>", "exec"), ns)
    feat = {"classes": sorted({s[0] for s in specs})}
    if bad:
        n, kind, diff = bad[0]
        leaked_unrelated = any(q not in {s[0] for s in specs} and "fast" not in q and "linalg" not in q for q in diff)
        feat.update({"at_event": kind, "unrelated": leaked_unrelated})
        return result(VIOL, kind="leak", msg=f"after event #{n} ({kind}): impl!=model (got, want): {diff}", feat=feat,
                      keys=keys, trans=nevents[0], nontrivial=nontrivial[0], detail=src)
    return result(OK, feat=feat, keys=keys, trans=nevents[0], nontrivial=nontrivial[0])


def env_hash(s):
    import hashlib

    return hashlib.sha1(s.encode()).hexdigest()[:12]
