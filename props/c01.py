"""C01 - every operator acts exactly as the dense matrix it represents."""
import torch

from vlib import env, recipes as R
from vlib.core import OK, OOD, VIOL, result
from vlib.oracles import Raised, call, compare

ID = "C01"
TITLE = "Every operator acts exactly as the dense matrix it represents"
TECHNIQUE = "bounded exhaustive enumeration of operator terms (all classes x all admissible depth-2 nestings) x batch shapes x dtypes x rhs/lhs shapes, each executed on the real operators and compared with the dense denotation"
RULE = (
    "every catalogue term and every wrapper-over-term nesting (depth<=2, thorough: depth-3 spines) x batch shapes x "
    "dtypes; per term: shape observers, to_dense, mT, op@X for every rhs kind, X@op for every lhs kind, mT@X; "
    "non-trivial = reference result is not all-zero and not equal to the bare rhs; distinct = (term, batch, dtype, observation)"
)
ASSUMPTIONS = ["values from the integer alphabet (exact arithmetic); FFT/kernel/root paths compared at c*eps*scale",
               "torch.matmul on the dense denotation defines the expected broadcast"]
CHUNK = 20
DT = {"f64": torch.float64, "f32": torch.float32}


def terms(tier):
    cat = R.catalogue(3)
    out = [(k, v) for k, v in cat.items()]
    out += list(R.nestings(3).items())
    if tier == "thorough":
        # depth-3 spines: every wrapper over a representative set of depth-2 nestings
        reps = ["Dense", "DensePSD", "Diag", "Toeplitz", "Kron", "TriL", "DenseRect"]
        d2 = R.nestings(3, inner_names=reps)
        cat3 = {}
        for n2, t2 in d2.items():
            (r, c), b = R.shape_of_safe(t2)
            if b is None:
                continue
            for wname, (mk, req) in R.WRAPPERS.items():
                if req in ("tri", "triop", "psd"):
                    continue
                if req in ("square", "square_nondiag") and r != c:
                    continue
                if req == "square_nondiag" and isinstance(b.op, R.O.DiagLinearOperator):
                    continue
                cat3[f"{wname}({n2})"] = R._subst(mk(t2, b.tri), r, c)
        out += list(cat3.items())
    return out


def cases(tier, seed):
    out = []
    batches = [[], [2]] if tier == "quick" else [[], [2], [1], [2, 3], [2, 1]]
    for name, term in terms(tier):
        depth1 = "(" not in name
        for b in batches + ([[3, 2]] if (tier == "quick" and depth1) else []):  # (two batch dimensions of distinct sizes for every class)
            for dt in (["f64", "f32"] if (depth1 or tier == "thorough") else ["f64"]):
                out.append({"name": name, "term": term, "batch": b, "dtype": dt})
    return out


def bounds(tier):
    return {"nesting_depth": 2 if tier == "quick" else 3, "n": 3, "batches": "(),(2,); depth-1 terms also (3,2)" if tier == "quick" else "(),(2,),(1,),(2,3),(2,1)",
            "dtypes": "float64 everywhere, float32 at depth 1 (quick) / everywhere (thorough)",
            "rhs_kinds": list(RHS), "lhs_kinds": list(LHS)}


def _ints(shape, tag, dtype):
    g = torch.Generator()
    g.manual_seed(abs(hash(tag)) % (2**31))
    t = torch.randint(-2, 3, tuple(shape), generator=g).to(dtype)
    return t + (t.abs().sum() == 0).to(dtype)


# rhs kinds: functions of (batch b, inner size c) -> shape
RHS = {
    "vec": lambda b, c: (c,), "mat": lambda b, c: (c, 2), "col": lambda b, c: (c, 1),
    "batched": lambda b, c: (*b, c, 2), "lead1": lambda b, c: (1, c, 2), "extra": lambda b, c: (3, 1, c, 2),
    "b2": lambda b, c: (2, c, 2), "bvec": lambda b, c: (*b, c),
}
LHS = {
    "mat": lambda b, r: (2, r), "vec": lambda b, r: (r,), "batched": lambda b, r: (*b, 2, r),
    "extra": lambda b, r: (3, 1, 2, r),
}


def _step(name, feat, got, ref_fn, inner, keyp, op_dtype, nontriv_ref=None):
    """compare implementation outcome with the reference computation."""
    ref = call(ref_fn)
    key = keyp + "|" + name
    if isinstance(ref, Raised):
        return result(OOD, feat=feat, keys=[key])
    if isinstance(got, Raised):
        return result(VIOL, kind="internal-error", exc=got.type, msg=f"{name}: {got.msg} @ {got.where()}", feat=feat, keys=[key])
    if not torch.is_tensor(got):
        got2 = call(got.to_dense)
        if isinstance(got2, Raised):
            return result(VIOL, kind="internal-error", exc=got2.type, msg=f"{name}: to_dense of result: {got2.msg} @ {got2.where()}", feat=feat, keys=[key])
        if tuple(got.shape) != tuple(ref.shape):
            return result(VIOL, kind="shape", msg=f"{name}: operator result shape {tuple(got.shape)} != {tuple(ref.shape)}", feat=feat, keys=[key])
        got = got2
    bad, ratio = compare(got, ref.to(op_dtype) if ref.dtype != got.dtype and ref.is_floating_point() else ref, inner=inner, what=name)
    nontriv = bool(ref.numel() and ref.abs().sum() > 0)
    if bad:
        return result(VIOL, kind=bad[0], msg=bad[1], feat=feat, keys=[key], nontrivial=nontriv, ratio=ratio)
    return result(OK, feat=feat, keys=[key], nontrivial=nontriv, ratio=ratio)


def run(case):
    dt = DT[case["dtype"]]
    batch = tuple(case["batch"])
    built = call(R.fresh, case["term"], dtype=dt, batch=batch, seed=env.SEED)
    head = case["term"][0]
    keyp = f"{case['name']}|{batch}|{case['dtype']}"
    if isinstance(built, Raised):
        # constructing a nesting the constructors refuse is outside the property ("nestings the constructors accept")
        refused = (built.frames and built.frames[-1][3].strip().startswith("raise")) or built.type == "NotApplicable"
        if refused:
            return result(OOD, feat={"head": head, "obs": "construct"}, keys=[keyp + "|construct"], msg=built.msg)
        return result(VIOL, kind="internal-error", exc=built.type, msg=f"construct: {built.msg} @ {built.where()}",
                      feat={"head": head, "obs": "construct", "name": case["name"]}, keys=[keyp + "|construct"])
    b, ctx = built
    op, dense = b.op, b.dense
    # permutation operators carry no floating data: they act in the dtype of the rhs
    if dense.dtype != dt:
        dense = dense.to(dt)
    opb = tuple(dense.shape[:-2])
    r, c = dense.shape[-2:]
    subs = []
    heads = R.heads_of(case["term"])
    br_rect = R.has_rect_batch_repeat(case["term"])
    inner_name = case["term"][2][0] if len(case["term"]) > 2 and isinstance(case["term"][2], list) else None
    F = lambda obs, **k: {"head": head, "inner": inner_name, "name": case["name"], "obs": obs, "batch": len(batch), "has_zero": "Zero" in heads, "br_rect": br_rect, **k}  # noqa: E731

    # 1. shape observers
    got = call(lambda: (tuple(op.shape), tuple(op.size()), op.dim(), tuple(op.batch_shape), tuple(op.matrix_shape), op.numel(), op.size(-1), op.size(-2)))
    want = (tuple(dense.shape), tuple(dense.size()), dense.dim(), tuple(dense.shape[:-2]), tuple(dense.shape[-2:]), dense.numel(), dense.size(-1), dense.size(-2))
    if isinstance(got, Raised):
        subs.append(result(VIOL, kind="internal-error", exc=got.type, msg=f"shape observers: {got.msg}", feat=F("shape"), keys=[keyp + "|shape"]))
    elif got != want:
        subs.append(result(VIOL, kind="shape", msg=f"shape observers {got} != {want}", feat=F("shape"), keys=[keyp + "|shape"]))
    else:
        subs.append(result(OK, feat=F("shape"), keys=[keyp + "|shape"]))
    # 2. densify / transpose
    subs.append(_step("to_dense", F("to_dense"), call(lambda: op.to_dense()), lambda: dense, c, keyp, dt))
    subs.append(_step("mT.to_dense", F("mT.to_dense"), call(lambda: op.mT.to_dense()), lambda: dense.mT, r, keyp, dt))
    subs.append(_step("transpose(-1,-2)", F("transpose"), call(lambda: op.transpose(-1, -2)), lambda: dense.mT, r, keyp, dt))
    # 3. right multiplication
    for kind, shp in RHS.items():
        if kind in ("lead1",) and not opb:
            continue
        if kind == "b2" and opb not in ((), (1,)):
            continue
        if kind in ("batched", "bvec") and not opb:
            continue
        X = _ints(shp(opb, c), f"{kind}{c}", dt)
        subs.append(_step(f"op@X[{kind}]", F("matmul", rhs=kind), call(lambda: op @ X), lambda: torch.matmul(dense, X), c, keyp, dt))
        if kind in ("vec", "mat", "batched"):
            subs.append(_step(f"op.matmul(X)[{kind}]", F("matmul_method", rhs=kind), call(lambda: op.matmul(X)), lambda: torch.matmul(dense, X), c, keyp, dt))
        Xt = _ints(shp(opb, r), f"t{kind}{r}", dt)
        subs.append(_step(f"op.mT@X[{kind}]", F("t_matmul", rhs=kind), call(lambda: op.mT @ Xt), lambda: torch.matmul(dense.mT, Xt), r, keyp, dt))
    # 4. left multiplication (Tensor @ operator dispatches through __torch_function__)
    for kind, shp in LHS.items():
        if kind == "batched" and not opb:
            continue
        X = _ints(shp(opb, r), f"l{kind}{r}", dt)
        subs.append(_step(f"X@op[{kind}]", F("rmatmul", lhs=kind), call(lambda: X @ op), lambda: torch.matmul(X, dense), r, keyp, dt))
    # 5. matmul against an operator (lazy product)
    Y = _ints((c, 2), f"opmat{c}", dt)
    subs.append(_step("op@DenseOp", F("matmul_op"), call(lambda: op @ R.O.DenseLinearOperator(Y)), lambda: torch.matmul(dense, Y), c, keyp, dt))
    return result(sub=subs, trans=len(subs) + 1)
