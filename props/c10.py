"""C10 - pivoted Cholesky under-approximates greedily; its preconditioner is exact."""
import itertools

import torch

from vlib import env, recipes as R, refalgos as RA
from vlib.core import OK, OOD, VIOL, result
from vlib.oracles import Raised, call

ID = "C10"
TITLE = "Pivoted Cholesky under-approximates greedily; its preconditioner is exact"
TECHNIQUE = "exhaustive enumeration of (matrix family x size x batch composition x rank bound 1..n+1 x error tolerance x input operator class x dtype) on the real pivoted_cholesky; since the algorithm is incremental, every column prefix of every run is a state on which the greedy / PSD-residual invariants are checked, and the Woodbury preconditioner is compared with dense algebra"
RULE = (
    "families {full rank (3 spectra), numerically low rank, tied diagonal (correlation / constant-diagonal), mixed batches whose members differ in "
    "rank and pivot order} x n in {2,3,5,8(,13)} x rank k = 1..n+1 x error_tol {None, 1e-1, 1e-8} x input class {Dense, Kron, Toeplitz, Sum, "
    "ConstantMul, BlockDiag, AddedDiag} x dtype; per run and per prefix r: residual A - L_r L_r^T PSD and zero on the chosen pivots, pivot = argmax of "
    "the residual diagonal, residual trace non-increasing, exact at r = n, valid permutation, early stop only below tolerance, no NaN; "
    "preconditioner cells: noise {constant, per-element, batched} x max_preconditioner_size {1,3,n} -> closure == (L L^T + D)^-1, SPD, logdet, operator; "
    "non-trivial = n >= 2 and k >= 2; distinct = (case)"
)
ASSUMPTIONS = ["input classes restricted to those whose _approx_diagonal is the exact diagonal (interpolated operators pivot on an approximate diagonal by design)",
               "tolerances: 1e-9 relative (float64), 2e-4 (float32) on residual PSD-ness / pivot zeros"]
CHUNK = 40
DTS = {"f64": torch.float64, "f32": torch.float32}

import linear_operator  # noqa: E402
from linear_operator import operators as O  # noqa: E402


def member(fam, n, i, seed):
    if "@" in fam:  # "family@scale": batch members of very different magnitude (the stopping rule is relative per member)
        base, sc = fam.split("@")
        return member(base, n, i, seed) * float(sc)
    if fam == "lowrank":
        k = max(1, n // 2)
        B = torch.randn(n, k, generator=RA.gen(f"lr{n}{i}", seed), dtype=torch.float64)
        return B @ B.mT
    if fam == "lowrank1":
        B = torch.randn(n, 1, generator=RA.gen(f"l1{n}{i}", seed), dtype=torch.float64)
        return B @ B.mT
    if fam == "tied":  # correlation matrix: all diagonal entries equal (ties at the very first pivot)
        idx = torch.arange(n, dtype=torch.float64)
        return torch.exp(-0.5 * (idx[:, None] - idx[None, :]) ** 2 / (1.0 + 0.3 * i) ** 2)
    if fam == "constdiag":
        return 0.5 * torch.ones(n, n, dtype=torch.float64) + 0.5 * torch.eye(n, dtype=torch.float64)
    A, _ = RA.spd(fam, n, 50.0, 1.0 + i, f"pc{fam}{n}{i}", seed)
    return A


def build_input(cls, A):
    """wrap the dense (batched) PSD matrix A in an operator class whose dense value is A (or report the modified target)"""
    if cls == "Dense":
        return O.DenseLinearOperator(A), A
    if cls == "ConstMul":
        return O.ConstantMulLinearOperator(O.DenseLinearOperator(A / 2.0), torch.tensor(2.0, dtype=A.dtype)), A
    if cls == "Sum":
        return O.SumLinearOperator(O.DenseLinearOperator(A * 0.25), O.DenseLinearOperator(A * 0.75)), A
    if cls == "AddedDiag":
        d = torch.full(A.shape[:-1], 0.5, dtype=A.dtype)
        return O.AddedDiagLinearOperator(O.DenseLinearOperator(A), O.DiagLinearOperator(d)), A + torch.diag_embed(d)
    if cls == "Kron":
        S = torch.tensor([[2.0, 0.5], [0.5, 1.0]], dtype=A.dtype)
        return O.KroneckerProductLinearOperator(O.DenseLinearOperator(S.expand(*A.shape[:-2], 2, 2)), O.DenseLinearOperator(A)), R.bkron(S.expand(*A.shape[:-2], 2, 2), A)
    if cls == "BlockDiag":
        blocks = torch.stack([A, 2 * A], -3)
        return O.BlockDiagLinearOperator(O.DenseLinearOperator(blocks)), R.block_diag_dense(blocks)
    if cls == "Toeplitz":
        n = A.shape[-1]
        c = torch.zeros(*A.shape[:-2], n, dtype=A.dtype)
        c[..., 0] = 2.0
        if n > 1:
            c[..., 1] = -0.7
        if n > 2:
            c[..., 2] = 0.1
        return O.ToeplitzLinearOperator(c), R.toeplitz_dense(c)
    raise ValueError(cls)


def cases(tier, seed):
    out = []
    ns = [2, 3, 5, 8] if tier == "quick" else [2, 3, 4, 5, 8, 13]
    fams = ["geom", "unif", "clustered", "lowrank", "lowrank1", "tied", "constdiag"]
    for fam, n, dt, tol in itertools.product(fams, ns, ["f64", "f32"], [None, 1e-1, 1e-8]):
        if dt == "f32" and (tier == "quick" and n > 5):
            continue
        for k in range(1, n + 2):
            out.append({"k": "pc", "fam": [fam], "n": n, "rank": k, "tol": tol, "dt": dt, "cls": "Dense"})
    for fam, n in itertools.product(["geom", "unif", "lowrank", "tied"], [n_ for n_ in ns if n_ >= 3]):
        for k in (2, n, n + 1):
            out.append({"k": "pc", "fam": [fam], "n": n, "rank": k, "tol": None, "dt": "f64", "cls": "Dense", "twice": True})
    mixes = [["geom", "lowrank"], ["lowrank1", "unif"], ["tied", "lowrank"], ["geom", "unif", "clustered"], ["lowrank", "lowrank1", "constdiag"]]
    # members of different magnitude and different numerical rank: the early stop must wait for the slowest member relative to ITS OWN scale
    scaled = [["lowrank1@1000", "lowrank"], ["lowrank", "lowrank1@1e-3"], ["geom@1e-4", "lowrank1"], ["lowrank1@100", "tied", "lowrank@0.01"]]
    for mix, n, tol in itertools.product(scaled, [n_ for n_ in ns if n_ >= 3], [None, 1e-1, 1e-2, 1e-8]):
        for k in ([2, n - 1, n, n + 1] if tier == "quick" else range(1, n + 2)):
            out.append({"k": "pc", "fam": mix, "n": n, "rank": k, "tol": tol, "dt": "f64", "cls": "Dense"})
    for mix, n, tol in itertools.product(mixes, ns, [None, 1e-8, 1e-12]):
        for k in ([1, 2, n - 1, n, n + 1] if tier == "quick" else range(1, n + 2)):
            if k >= 1:
                out.append({"k": "pc", "fam": mix, "n": n, "rank": k, "tol": tol, "dt": "f64", "cls": "Dense"})
    for cls, fam, n in itertools.product(["ConstMul", "Sum", "AddedDiag", "Kron", "BlockDiag", "Toeplitz"], ["geom", "lowrank"], [3, 5] if tier == "quick" else [2, 3, 5, 8]):
        for b in ([], [2]):
            for k in (1, 2, n, 2 * n + 1):
                out.append({"k": "pc", "fam": [fam] * (2 if b else 1), "n": n, "rank": k, "tol": 1e-8, "dt": "f64", "cls": cls})
    for fam, n, noise, size, b in itertools.product(["geom", "unif", "lowrank", "tied"], [3, 5, 8] if tier == "quick" else [2, 3, 5, 8, 13],
                                                    ["const", "elem", "batched_const", "batched_elem"], [1, 3, "n"], [[], [2], [2, 2]]):
        if noise.startswith("batched") and not b:
            continue
        out.append({"k": "precond", "fam": fam, "n": n, "noise": noise, "size": size, "b": b})
    return out


def bounds(tier):
    return {"n": "2..8 (quick) / 2..13 (thorough)", "rank": "1..n+1 (all)", "error_tol": [None, 1e-1, 1e-8, 1e-12], "batch_mixes": 5,
            "input_classes": ["Dense", "ConstMul", "Sum", "AddedDiag", "Kron", "BlockDiag", "Toeplitz"]}


def run(case):
    feat = {kk: (str(v) if isinstance(v, list) else v) for kk, v in case.items()}
    key = repr(sorted((a, str(b)) for a, b in case.items()))
    if case["k"] == "precond":
        return run_precond(case, feat, key)
    n, dt = case["n"], DTS[case["dt"]]
    fams = case["fam"]
    mats = [member(f, n, i, env.SEED) for i, f in enumerate(fams)]
    A = (torch.stack(mats) if len(mats) > 1 else mats[0]).to(dt)
    feat["mixed"] = len(set(fams)) > 1
    op, target = build_input(case["cls"], A)
    T = target.double()
    N = T.shape[-1]
    k = case["rank"]
    tol_arg = case["tol"]
    etol = tol_arg if tol_arg is not None else env.settings.preconditioner_tolerance.value()
    if case.get("twice"):
        # the same operator object was factorized before under a loose preconditioner_tolerance: the answer may not be served from then
        env.set_settings({"preconditioner_tolerance": 0.5})
        call(op.pivoted_cholesky, k, error_tol=None, return_pivots=True)
        env.set_settings({"preconditioner_tolerance": 1e-8})
        etol = 1e-8
    got = call(op.pivoted_cholesky, k, error_tol=tol_arg, return_pivots=True)
    nontriv = N >= 2 and k >= 2
    if isinstance(got, Raised):
        return result(VIOL, kind="internal-error", exc=got.type, msg=f"{got.msg} @ {got.where()}", feat=feat, keys=[key], nontrivial=nontriv)
    L, piv = got
    r = L.shape[-1]
    batch = tuple(T.shape[:-2])
    if tuple(L.shape) != (*batch, N, r) or r > min(k, N) or r < 1 or tuple(piv.shape) != (*batch, N) or L.dtype != dt:
        return result(VIOL, kind="shape", msg=f"L {tuple(L.shape)} {L.dtype}, pivots {tuple(piv.shape)} for N={N}, rank={k}", feat=feat, keys=[key], nontrivial=nontriv)
    if not torch.isfinite(L).all():
        bad_members = (~torch.isfinite(L).reshape(-1, N * r).all(-1)).nonzero().flatten().tolist()
        return result(VIOL, kind="nan", msg=f"NaN/Inf in the factor (members {bad_members} of {fams}, rank {k}, tol {tol_arg})", feat=feat, keys=[key], nontrivial=nontriv)
    if not torch.equal(piv.sort(-1).values, torch.arange(N).expand(*batch, N)):
        return result(VIOL, kind="permutation", msg="returned pivots are not a permutation", feat=feat, keys=[key], nontrivial=nontriv)
    L64 = L.double()
    eps = 1e-9 if dt == torch.float64 else 2e-4
    scale = T.diagonal(dim1=-2, dim2=-1).amax(-1).clamp_min(1e-300)  # per member
    Tf, Lf, pf, sf = T.reshape(-1, N, N), L64.reshape(-1, N, r), piv.reshape(-1, N), scale.reshape(-1)
    worst = 0.0
    for bi in range(Tf.shape[0]):
        prev_trace = Tf[bi].diagonal().sum().item()
        tolb = eps * sf[bi].item() * N
        for j in range(1, r + 1):
            E = Tf[bi] - Lf[bi][:, :j] @ Lf[bi][:, :j].T
            lam_min = torch.linalg.eigvalsh(0.5 * (E + E.T)).min().item()
            pr = pf[bi][:j]
            onpiv = max(E[pr, :].abs().max().item(), E[:, pr].abs().max().item())
            tr = E.diagonal().sum().item()
            worst = max(worst, -lam_min / tolb, onpiv / tolb)
            where = f"member {bi} ({fams[bi % len(fams)]}), prefix {j}/{r}"
            if lam_min < -tolb:
                return result(VIOL, kind="not-psd", msg=f"{where}: residual A - L L^T has eigenvalue {lam_min:.3g} < 0", feat=feat, keys=[key], nontrivial=nontriv)
            if onpiv > tolb:
                return result(VIOL, kind="pivot-rows", msg=f"{where}: residual is {onpiv:.3g} on the rows/columns of chosen pivots", feat=feat, keys=[key], nontrivial=nontriv)
            if tr > prev_trace + tolb:
                return result(VIOL, kind="trace", msg=f"{where}: residual trace increased {prev_trace:.6g} -> {tr:.6g}", feat=feat, keys=[key], nontrivial=nontriv)
            # greedy choice: pivot j was the largest residual diagonal entry before step j (ties free)
            Eprev = Tf[bi] - Lf[bi][:, : j - 1] @ Lf[bi][:, : j - 1].T
            dprev = Eprev.diagonal()
            rest = pf[bi][j - 1:]
            if dprev[pf[bi][j - 1]] < dprev[rest].max() - max(tolb, 1e-6 * sf[bi].item() if dt == torch.float32 else tolb):
                return result(VIOL, kind="greedy", msg=f"{where}: pivot {pf[bi][j - 1].item()} has residual diagonal {dprev[pf[bi][j - 1]].item():.6g} but the maximum is {dprev[rest].max().item():.6g}", feat=feat, keys=[key], nontrivial=nontriv)
            prev_trace = tr
        E = Tf[bi] - Lf[bi] @ Lf[bi].T
        if r == N and E.abs().max().item() > 10 * tolb:
            return result(VIOL, kind="exact", msg=f"member {bi}: rank reached n but |A - L L^T| = {E.abs().max().item():.3g}", feat=feat, keys=[key], nontrivial=nontriv)
    # early stopping contract
    if r < min(k, N):
        errs = []
        for bi in range(Tf.shape[0]):
            E = Tf[bi] - Lf[bi] @ Lf[bi].T
            errs.append(E.diagonal().clamp_min(0).sum().item() / sf[bi].item())
        if max(errs) > etol * 1.001 + eps * N:
            return result(VIOL, kind="early-stop", msg=f"stopped at rank {r} < {min(k, N)} although a member's relative residual trace is {max(errs):.3g} > error_tol {etol}", feat=feat, keys=[key], nontrivial=nontriv)
    return result(OK, feat=feat, keys=[key] + [f"{key}|prefix{j}" for j in range(1, r + 1)], nontrivial=nontriv, ratio=max(worst, 0.0), trans=r * Tf.shape[0])


def run_precond(case, feat, key):
    n = case["n"]
    b = tuple(case["b"])
    nb = max(1, int(torch.Size(b).numel()))
    K = torch.stack([member(case["fam"], n, i, env.SEED) for i in range(nb)]).reshape(*b, n, n) if b else member(case["fam"], n, 0, env.SEED)
    noise = case["noise"]
    if noise == "const":
        Dop = O.ConstantDiagLinearOperator(torch.full((*b, 1), 0.3, dtype=torch.float64), diag_shape=n)
    elif noise == "elem":
        Dop = O.DiagLinearOperator((0.2 + 0.1 * torch.arange(n, dtype=torch.float64)).expand(*b, n).contiguous())
    elif noise == "batched_const":
        Dop = O.ConstantDiagLinearOperator((0.1 + 0.2 * torch.arange(nb, dtype=torch.float64)).reshape(*b, 1), diag_shape=n)
    else:
        Dop = O.DiagLinearOperator((0.2 + 0.1 * torch.rand(*b, n, generator=RA.gen("noise", env.SEED), dtype=torch.float64)))
    Dd = Dop.to_dense()
    op = O.AddedDiagLinearOperator(O.DenseLinearOperator(K), Dop)
    size = n if case["size"] == "n" else case["size"]
    env.set_settings({"max_preconditioner_size": size, "min_preconditioning_size": 0})
    got = call(op._preconditioner)
    if isinstance(got, Raised):
        return result(VIOL, kind="internal-error", exc=got.type, msg=f"{got.msg} @ {got.where()}", feat=feat, keys=[key])
    closure, plt, logdet = got
    if closure is None:
        return result(VIOL, kind="missing", msg="no preconditioner was built although min_preconditioning_size=0", feat=feat, keys=[key])
    L = op._piv_chol_self
    P = L @ L.mT + Dd
    X = torch.eye(n, dtype=torch.float64).expand(*b, n, n)
    Pinv = call(closure, X)
    if isinstance(Pinv, Raised):
        return result(VIOL, kind="internal-error", exc=Pinv.type, msg=f"closure: {Pinv.msg} @ {Pinv.where()}", feat=feat, keys=[key])
    ref = torch.linalg.inv(P)
    tol = 1e-9 * max(1.0, ref.abs().amax().item())
    d = (Pinv - ref).abs().amax().item()
    if d > tol:
        return result(VIOL, kind="closure", msg=f"preconditioner closure differs from (L L^T + D)^-1 by {d:.3g}", feat=feat, keys=[key])
    if (Pinv - Pinv.mT).abs().amax().item() > tol or torch.linalg.eigvalsh(0.5 * (Pinv + Pinv.mT)).min().item() <= 0:
        return result(VIOL, kind="spd", msg="preconditioner is not symmetric positive definite", feat=feat, keys=[key])
    ld = torch.logdet(P)
    if tuple(logdet.shape) != tuple(ld.shape) or (logdet - ld).abs().amax().item() > 1e-9 * max(1.0, ld.abs().amax().item()):
        return result(VIOL, kind="logdet", msg=f"preconditioner logdet {logdet.flatten()[:3].tolist()} vs log|L L^T + D| {ld.flatten()[:3].tolist()} (shape {tuple(logdet.shape)} vs {tuple(ld.shape)})", feat=feat, keys=[key])
    pd = call(plt.to_dense)
    if isinstance(pd, Raised) or (pd - P).abs().amax().item() > 1e-10 * max(1.0, P.abs().amax().item()):
        return result(VIOL, kind="operator", msg=f"returned preconditioner operator does not densify to L L^T + D ({pd if isinstance(pd, Raised) else (pd - P).abs().amax().item()})", feat=feat, keys=[key])
    # L itself is a valid pivoted-Cholesky factor of K: residual PSD
    E = K - L @ L.mT
    if torch.linalg.eigvalsh(0.5 * (E + E.mT)).min().item() < -1e-9 * K.abs().amax().item() * n:
        return result(VIOL, kind="not-psd", msg="K - L L^T of the preconditioner factor is not PSD", feat=feat, keys=[key])
    return result(OK, feat=feat, keys=[key], ratio=d / tol)
