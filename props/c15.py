"""C15 - torch.* dispatch on operators matches the methods, in either argument order."""
import inspect
import warnings

import torch

from vlib import env, recipes as R
from vlib.core import OK, OOD, UNSUP, VIOL, result
from vlib.oracles import Raised, call, compare, is_explicit_unsupported

ID = "C15"
TITLE = "torch.* dispatch on operators matches the methods, in either argument order"
TECHNIQUE = "exhaustive enumeration of the live registered-function tables x operator classes x operand order x operand kind on the real __torch_function__ dispatcher, three-way compared (torch.f(op) / op.method / torch.f(dense)); plus the complete negative space of unregistered single-argument torch overrides"
RULE = (
    "every entry of _HANDLED_FUNCTIONS / _HANDLED_SECOND_ARG_FUNCTIONS (read from the module at run time) x every uniform-catalogue "
    "head x batch {(),(2,)} x operand order x operand kind {Tensor, python scalar, operator}; factorizations compared by "
    "reconstruction + sorted spectra; plus every unregistered torch override with one required positional parameter, which must "
    "raise NotImplementedError; non-trivial = a registered function was really dispatched and compared; distinct = (function, head, batch, order, kind)"
)
ASSUMPTIONS = ["abs/sqrt are compared elementwise with the dense tensor; exp/log are matrix functions on diagonal operators and are compared on the diagonal only (off-diagonal exp(0)=1 / log(0)=-inf is not what a diagonal operator can represent)",
               "registered functions a class does not implement raise an explicit NotImplementedError (accepted)"]
CHUNK = 4
DT = torch.float64
N = 6
ALLOW = r".*"  # any explicit raise inside linear_operator reached from the dispatched method counts as a declaration here


def cases(tier, seed):
    out = []
    for name in R.catalogue_uniform(N):
        for b in ([], [2]):
            out.append({"kind": "registered", "name": name, "batch": b})
        # two equal batch dimensions: a per-batch constant of shape (k, 1, 1, 1) mis-aligned to the last batch dimension keeps the shape
        out.append({"kind": "registered", "name": name, "batch": [2, 2]})
    reps = ["Dense", "Diag", "Kron", "Toeplitz", "Zero", "Identity", "Root", "BlockDiag"] if tier == "quick" else list(R.catalogue_uniform(N))
    for name in reps:
        out.append({"kind": "negative", "name": name, "batch": []})
    return out


def bounds(tier):
    from linear_operator.operators import _linear_operator as L

    return {"N": N, "registered_first_arg": sorted(set(L._HANDLED_FUNCTIONS.values())), "registered_second_arg": sorted(set(L._HANDLED_SECOND_ARG_FUNCTIONS.values())),
            "negative_space_heads": "8 representatives (quick) / all heads (thorough)", "batches": "(),(2,)"}


def _t(shape, tag, pd=False):
    g = torch.Generator()
    g.manual_seed(abs(hash(tag)) % (2**31))
    t = torch.randint(-2, 3, tuple(shape), generator=g).to(DT)
    t = t + (t.abs().sum() == 0).to(DT)
    if pd:
        t = t @ t.mT + shape[-1] * torch.eye(shape[-1], dtype=DT)
    return t


def dn(x):
    return x if torch.is_tensor(x) or not hasattr(x, "to_dense") else x.to_dense()


def run(case):
    if case["kind"] == "negative":
        return run_negative(case)
    batch = tuple(case["batch"])
    name = case["name"]
    term = R.catalogue_uniform(N)[name]
    built = call(R.fresh, term, dtype=DT, batch=batch, seed=env.SEED)
    if isinstance(built, Raised):
        return result(OOD, feat={"name": name}, keys=[f"{name}|{batch}|construct"], msg=built.msg)
    b, ctx = built
    op, dense = b.op, b.dense.to(DT)
    opb = tuple(dense.shape[:-2])
    n = dense.shape[-1]
    subs = []
    base = {"name": name, "head": term[0], "nb": len(opb), "pd": bool(b.pd), "tri": b.tri}

    def cell(fname, order, kind, via_torch, via_method, via_dense, cmp="value", tol=500, needs_pd=False):
        feat = dict(base, f=fname, order=order, kind=kind)
        key = f"{name}|{batch}|{fname}|{order}|{kind}"
        if needs_pd and not b.pd:
            subs.append(result(OOD, feat=feat, keys=[key]))
            return
        ref = call(via_dense)
        if isinstance(ref, Raised):
            subs.append(result(OOD, feat=feat, keys=[key], msg=ref.msg))
            return
        got_m = call(via_method) if via_method is not None else None
        got_t = call(via_torch)
        # a class that does not implement a registered function must say so explicitly - from both entry points
        if isinstance(got_t, Raised):
            if isinstance(got_m, Raised) and got_m.type == got_t.type and is_explicit_unsupported(got_t, ALLOW):
                subs.append(result(UNSUP, exc=got_t.type, msg=got_t.msg, feat=feat, keys=[key]))
            elif via_method is None and is_explicit_unsupported(got_t, ALLOW):
                subs.append(result(UNSUP, exc=got_t.type, msg=got_t.msg, feat=feat, keys=[key]))
            else:
                subs.append(result(VIOL, kind="internal-error", exc=got_t.type, msg=f"torch.{fname}[{order},{kind}]: {got_t.msg} @ {got_t.where()} (method: {got_m if isinstance(got_m, Raised) else 'returned'})", feat=feat, keys=[key]))
            return
        if isinstance(got_m, Raised):
            subs.append(result(VIOL, kind="dispatch", exc=got_m.type, msg=f"{fname}[{order},{kind}]: torch function returned but the method raised {got_m.msg}", feat=feat, keys=[key]))
            return
        bad = None
        ratio = 0.0
        try:
            if cmp == "value":
                for label, g in (("torch", got_t), ("method", got_m)):
                    if g is None:
                        continue
                    bad, ratio = compare(dn(g), ref, inner=n, what=f"{label} {fname}[{order},{kind}]", c=tol)
                    if bad:
                        break
            else:
                bad, ratio = cmp(got_t, got_m, ref)
        except Exception as e:  # noqa: B902 - densifying a result failed inside the library
            r = Raised(e)
            subs.append(result(VIOL, kind="internal-error", exc=r.type, msg=f"{fname}[{order},{kind}] result unusable: {r.msg} @ {r.where()}", feat=feat, keys=[key]))
            return
        if bad:
            subs.append(result(VIOL, kind=bad[0], msg=bad[1], feat=feat, keys=[key], ratio=ratio))
        else:
            subs.append(result(OK, feat=feat, keys=[key], ratio=ratio))

    # ---- unary registered functions -----------------------------------------------------------
    cell("abs", "first", "-", lambda: torch.abs(op), lambda: op.abs(), lambda: dense.abs())
    cell("sqrt", "first", "-", lambda: torch.sqrt(op), lambda: op.sqrt(), lambda: dense.clamp_min(0).sqrt() if (dense >= 0).all() else _refuse())

    def diag_only(f):
        def cmp(gt, gm, ref):
            for label, g in (("torch", gt), ("method", gm)):
                d = dn(g).diagonal(dim1=-2, dim2=-1)
                bad, ratio = compare(d, ref, inner=1, what=f"{label} {f} (diagonal)", c=500)
                if bad:
                    return bad, ratio
            bad, ratio = compare(dn(gt), dn(gm), inner=1, what=f"torch.{f} vs method", c=10)
            return bad, ratio
        return cmp
    dd = dense.diagonal(dim1=-2, dim2=-1)
    cell("exp", "first", "-", lambda: torch.exp(op), lambda: op.exp(), lambda: dd.exp(), cmp=diag_only("exp"))
    cell("log", "first", "-", lambda: torch.log(op), lambda: op.log(), lambda: dd.log() if (dd > 0).all() else _refuse(), cmp=diag_only("log"))
    cell("clone", "first", "-", lambda: torch.clone(op), lambda: op.clone(), lambda: dense.clone())
    cell("diagonal", "first", "-", lambda: torch.diagonal(op, dim1=-2, dim2=-1), lambda: op.diagonal(), lambda: dense.diagonal(dim1=-2, dim2=-1))
    cell("numel", "first", "-", lambda: torch.tensor(float(torch.numel(op))), lambda: torch.tensor(float(op.numel())), lambda: torch.tensor(float(dense.numel())))
    cell("inverse", "first", "-", lambda: torch.inverse(op), lambda: op.inverse(), lambda: torch.inverse(dense), tol=1e5, needs_pd=True)
    cell("logdet", "first", "-", lambda: torch.logdet(op), lambda: op.logdet(), lambda: torch.logdet(dense), tol=1e5, needs_pd=True)
    cell("cholesky", "first", "-", lambda: torch.linalg.cholesky(op), lambda: op.cholesky(), lambda: torch.linalg.cholesky(dense), tol=1e5, needs_pd=True)
    cell("cholesky", "first", "upper", lambda: torch.linalg.cholesky(op, upper=True), lambda: op.cholesky(upper=True), lambda: torch.linalg.cholesky(dense, upper=True), tol=1e5, needs_pd=True)

    def eig_cmp(gt, gm, ref):
        for label, g in (("torch", gt), ("method", gm)):
            w, q = g
            q = dn(q)
            bad, ratio = compare(w.sort(-1).values, ref[0], inner=n, what=f"{label} eigh eigenvalues (sorted)", c=1e6)
            if bad:
                return bad, ratio
            bad, ratio = compare(q @ torch.diag_embed(w) @ q.mT, dense, inner=n, what=f"{label} eigh reconstruction", c=1e6)
            if bad:
                return bad, ratio
        return None, ratio
    cell("eigh", "first", "-", lambda: torch.linalg.eigh(op), lambda: op.eigh(), lambda: torch.linalg.eigh(dense), cmp=eig_cmp, needs_pd=True)
    cell("eigvalsh", "first", "-", lambda: torch.linalg.eigvalsh(op).sort(-1).values, lambda: op.eigvalsh().sort(-1).values, lambda: torch.linalg.eigvalsh(dense), tol=1e6, needs_pd=True)

    def svd_cmp(gt, gm, ref):
        for label, g in (("torch", gt), ("method", gm)):
            u, s, v = g
            if label == "torch":  # torch.linalg.svd returns V^H
                rec = dn(u) @ torch.diag_embed(s) @ dn(v)
            else:
                rec = dn(u) @ torch.diag_embed(s) @ dn(v).mT
            bad, ratio = compare(s.sort(-1, descending=True).values, ref[1], inner=n, what=f"{label} svd singular values", c=1e6)
            if bad:
                return bad, ratio
            bad, ratio = compare(rec, dense, inner=n, what=f"{label} svd reconstruction", c=1e6)
            if bad:
                return bad, ratio
        return None, ratio
    cell("svd", "first", "-", lambda: torch.linalg.svd(op), lambda: op.svd(), lambda: torch.linalg.svd(dense), cmp=svd_cmp, needs_pd=True)
    # reductions / shape functions
    for d in ([0] if opb else []) + [-1, -2]:
        cell("sum", "first", f"dim={d}", lambda: torch.sum(op, d), lambda: op.sum(d), lambda: dense.sum(d))
    cell("sum", "first", "all", lambda: torch.sum(op), lambda: op.sum(), lambda: dense.sum())
    if opb:
        cell("prod", "first", "dim=0", lambda: torch.prod(op, 0), lambda: op.prod(0), lambda: dense.prod(0), needs_pd=True, tol=1e4)
        cell("transpose", "first", "0,-1", lambda: torch.transpose(op, 0, -1), lambda: op.transpose(0, -1), lambda: dense.transpose(0, -1))
    cell("transpose", "first", "-1,-2", lambda: torch.transpose(op, -1, -2), lambda: op.transpose(-1, -2), lambda: dense.transpose(-1, -2))
    cell("unsqueeze", "first", "0", lambda: torch.unsqueeze(op, 0), lambda: op.unsqueeze(0), lambda: dense.unsqueeze(0))
    cell("unsqueeze", "first", "-3", lambda: torch.unsqueeze(op, -3), lambda: op.unsqueeze(-3), lambda: dense.unsqueeze(-3))
    cell("squeeze", "first", "0of1", lambda: torch.squeeze(torch.unsqueeze(op, 0), 0), lambda: op.unsqueeze(0).squeeze(0), lambda: dense)
    nd = dense.dim()
    perm = tuple(range(nd - 2))[::-1] + (nd - 2, nd - 1)
    cell("permute", "first", str(perm), lambda: torch.permute(op, perm), lambda: op.permute(*perm), lambda: dense.permute(perm))
    # ---- binary functions, operator first ---------------------------------------------------------
    T = _t((*opb, n, n), "T")
    Tpd = _t((*opb, n, n), "Tpd", pd=True)
    X = _t((*opb, n, 2), "X")
    v = _t((n,), "v")
    Oop = R.O.DenseLinearOperator(T)
    for kind, other, other_dense in (("tensor", T, T), ("operator", Oop, T), ("scalar", 2.0, 2.0)):
        cell("add", "first", kind, lambda: torch.add(op, other), lambda: op.add(other) if kind != "scalar" else op + other, lambda: torch.add(dense, other_dense))
        cell("sub", "first", kind, lambda: torch.sub(op, other), lambda: op.sub(other) if kind != "scalar" else op - other, lambda: torch.sub(dense, other_dense))
        cell("mul", "first", kind, lambda: torch.mul(op, other), lambda: op.mul(other), lambda: torch.mul(dense, other_dense),
             needs_pd=(kind == "operator"), tol=1e4 if kind == "operator" else 500)
        if kind != "operator":
            cell("div", "first", kind, lambda: torch.div(op, other), lambda: op.div(other), lambda: torch.div(dense, other_dense) if kind == "scalar" else _refuse())
    # per-batch constants (..., 1, 1) broadcasting over the matrix dimensions, every pattern of size-1 batch dimensions, both orders
    if opb:
        import itertools as _it
        for mask in _it.product((True, False), repeat=len(opb)):
            cshape = tuple(d if keep else 1 for d, keep in zip(opb, mask)) + (1, 1)
            Cb = (torch.arange(int(torch.tensor(cshape).prod()), dtype=DT) * 1.5 + 2.0).view(cshape)  # distinct, non-zero members
            tagc = "const" + "x".join(map(str, cshape))
            cell("mul", "first", tagc, lambda Cb=Cb: torch.mul(op, Cb), lambda Cb=Cb: op.mul(Cb), lambda Cb=Cb: torch.mul(dense, Cb))
            cell("mul", "second", tagc, lambda Cb=Cb: torch.mul(Cb, op), lambda Cb=Cb: Cb * op, lambda Cb=Cb: torch.mul(Cb, dense))
            cell("div", "first", tagc, lambda Cb=Cb: torch.div(op, Cb), lambda Cb=Cb: op.div(Cb), lambda Cb=Cb: torch.div(dense, Cb))
    cell("add", "first", "alpha", lambda: torch.add(op, T, alpha=3.0), lambda: op.add(T, alpha=3.0), lambda: torch.add(dense, T, alpha=3.0))
    cell("sub", "first", "alpha", lambda: torch.sub(op, T, alpha=3.0), lambda: op.sub(T, alpha=3.0), lambda: torch.sub(dense, T, alpha=3.0))
    cell("div", "first", "t0", lambda: torch.div(op, torch.tensor(4.0, dtype=DT)), lambda: op.div(torch.tensor(4.0, dtype=DT)), lambda: dense / 4.0)
    for kind, other, other_dense in (("tensor", X, X), ("vector", v, v), ("operator", R.O.DenseLinearOperator(X), X)):
        cell("matmul", "first", kind, lambda: torch.matmul(op, other), lambda: op.matmul(other), lambda: torch.matmul(dense, other_dense))
    cell("solve", "first", "tensor", lambda: torch.linalg.solve(op, X), lambda: op.solve(X), lambda: torch.linalg.solve(dense, X), tol=1e6, needs_pd=True)
    cell("isclose", "first", "tensor", lambda: torch.isclose(op, dense).to(DT), lambda: op.isclose(dense).to(DT), lambda: torch.isclose(dense, dense).to(DT))
    cell("isclose", "first", "tensor-far", lambda: torch.isclose(op, dense + 1).to(DT), lambda: op.isclose(dense + 1).to(DT), lambda: torch.isclose(dense, dense + 1).to(DT))
    if b.tri in ("lower", "upper"):
        up = b.tri == "upper"
        cell("solve_triangular", "first", "left", lambda: torch.linalg.solve_triangular(op, X, upper=up), lambda: op.solve_triangular(X, upper=up),
             lambda: torch.linalg.solve_triangular(dense, X, upper=up), tol=1e5)
    # ---- operator as the SECOND operand -------------------------------------------------------------
    L = _t((*opb, 2, n), "L")
    cell("matmul", "second", "tensor", lambda: torch.matmul(L, op), lambda: L @ op, lambda: torch.matmul(L, dense))
    cell("matmul", "second", "vector", lambda: torch.matmul(v, op), lambda: v @ op, lambda: torch.matmul(v, dense))
    cell("matmul", "second", "Tensor.matmul", lambda: L.matmul(op), None, lambda: L.matmul(dense))
    cell("add", "second", "tensor", lambda: torch.add(T, op), lambda: T + op, lambda: torch.add(T, dense))
    cell("add", "second", "Tensor.add", lambda: T.add(op), None, lambda: T.add(dense))
    cell("add", "second", "scalar", lambda: 2.0 + op, None, lambda: 2.0 + dense)
    cell("sub", "second", "tensor", lambda: torch.sub(T, op), lambda: T - op, lambda: torch.sub(T, dense))
    cell("sub", "second", "Tensor.sub", lambda: T.sub(op), None, lambda: T.sub(dense))
    cell("sub", "second", "scalar", lambda: 2.0 - op, None, lambda: 2.0 - dense)
    cell("mul", "second", "tensor", lambda: torch.mul(T, op), lambda: T * op, lambda: torch.mul(T, dense))
    cell("mul", "second", "Tensor.mul", lambda: T.mul(op), None, lambda: T.mul(dense))
    cell("mul", "second", "scalar", lambda: 3.0 * op, None, lambda: 3.0 * dense)
    cell("mul", "second", "t0", lambda: torch.mul(torch.tensor(3.0, dtype=DT), op), lambda: torch.tensor(3.0, dtype=DT) * op, lambda: 3.0 * dense)
    cell("isclose", "second", "tensor", lambda: torch.isclose(dense, op).to(DT), None, lambda: torch.isclose(dense, dense).to(DT))
    cell("truediv", "first", "scalar", lambda: op / 4.0, lambda: op.div(4.0), lambda: dense / 4.0)
    # ---- extra positional / keyword arguments must reach the implementation in both operand orders -------------------
    near = dense + 0.05
    for pos, mk in (("first", lambda *a, **k: torch.isclose(op, near, *a, **k)), ("second", lambda *a, **k: torch.isclose(near, op, *a, **k))):
        ref = (lambda *a, **k: torch.isclose(dense, near, *a, **k)) if pos == "first" else (lambda *a, **k: torch.isclose(near, dense, *a, **k))
        cell("isclose", pos, "default-tol", lambda mk=mk: mk().to(DT), None, lambda ref=ref: ref().to(DT))
        cell("isclose", pos, "positional rtol, atol", lambda mk=mk: mk(0.0, 0.1).to(DT), None, lambda ref=ref: ref(0.0, 0.1).to(DT))
        cell("isclose", pos, "positional rtol only", lambda mk=mk: mk(0.5).to(DT), None, lambda ref=ref: ref(0.5).to(DT))
        cell("isclose", pos, "keyword atol", lambda mk=mk: mk(atol=0.1).to(DT), None, lambda ref=ref: ref(atol=0.1).to(DT))
        cell("isclose", pos, "keyword rtol, atol", lambda mk=mk: mk(rtol=0.0, atol=0.01).to(DT), None, lambda ref=ref: ref(rtol=0.0, atol=0.01).to(DT))
    cell("add", "second", "alpha", lambda: torch.add(T, op, alpha=3.0), None, lambda: torch.add(T, dense, alpha=3.0))
    cell("sub", "second", "alpha", lambda: torch.sub(T, op, alpha=3.0), None, lambda: torch.sub(T, dense, alpha=3.0))
    return result(sub=subs, trans=2 * len(subs) + 1)


def _refuse():
    raise RuntimeError("reference undefined")


def run_negative(case):
    """unregistered functions raise NotImplementedError rather than silently densifying or mis-dispatching"""
    from linear_operator.operators import _linear_operator as L

    name = case["name"]
    built = call(R.fresh, R.catalogue_uniform(N)[name], dtype=DT, batch=(), seed=env.SEED)
    if isinstance(built, Raised):
        built = call(R.fresh, R.catalogue_uniform(N)[name], dtype=torch.float32, batch=(), seed=env.SEED)
    if isinstance(built, Raised):
        return result(OOD, feat={"name": name}, keys=[f"neg|{name}|construct"], msg=built.msg)
    op = built[0].op
    handled = set(L._HANDLED_FUNCTIONS) | set(L._HANDLED_SECOND_ARG_FUNCTIONS)
    subs = []
    overrides = torch.overrides.get_testing_overrides()
    for f in sorted(overrides, key=lambda f: (getattr(f, "__module__", "") or "", getattr(f, "__name__", repr(f)))):
        if f in handled:
            continue
        fname = f"{getattr(f, '__module__', None) or type(f).__name__}.{getattr(f, '__name__', repr(f))}"
        if "Tensor" in fname and not fname.startswith("torch."):
            continue
        try:
            sig = inspect.signature(overrides[f])
        except (TypeError, ValueError):
            continue
        req = [p for p in sig.parameters.values() if p.default is p.empty and p.kind in (p.POSITIONAL_ONLY, p.POSITIONAL_OR_KEYWORD)]
        if len(req) != 1:
            continue
        if getattr(f, "__name__", "") in ("__get__", "__set__", "__delete__", "__repr__", "__format__", "__dir__", "__sizeof__", "__reduce_ex__", "__deepcopy__"):
            continue
        feat = {"name": name, "f": fname, "order": "neg", "kind": "-"}
        key = f"neg|{name}|{fname}"
        got = call(f, op)
        if isinstance(got, Raised):
            if got.type == "NotImplementedError":
                subs.append(result(OK, feat=feat, keys=[key]))
            elif not any(fr[0].startswith(env.LO_DIR) for fr in got.frames):
                subs.append(result(OOD, feat=feat, keys=[key], msg=f"{got.type}: {got.msg[:60]}"))  # torch's own arg parsing refused
            else:
                subs.append(result(VIOL, kind="mis-dispatch", exc=got.type, msg=f"{fname}(op): {got.msg} @ {got.where()}", feat=feat, keys=[key]))
        else:
            subs.append(result(VIOL, kind="no-error", msg=f"{fname}(op) returned {type(got).__name__} instead of raising NotImplementedError", feat=feat, keys=[key]))
    # ---- every binary torch function, operator first and operator second: refuse, or agree with the dense computation -------------
    dense = built[0].dense
    Tn = dense + 2.0 + torch.arange(dense.shape[-1], dtype=dense.dtype)  # same shape, no zeros
    for f in sorted(overrides, key=lambda f: (getattr(f, "__module__", "") or "", getattr(f, "__name__", repr(f)))):
        fname = f"{getattr(f, '__module__', None) or type(f).__name__}.{getattr(f, '__name__', repr(f))}"
        if not fname.startswith("torch.") or "Tensor" in fname or getattr(f, "__name__", "").endswith("_"):
            continue
        try:
            sig = inspect.signature(overrides[f])
        except (TypeError, ValueError):
            continue
        req = [p for p in sig.parameters.values() if p.default is p.empty and p.kind in (p.POSITIONAL_ONLY, p.POSITIONAL_OR_KEYWORD)]
        if len(req) != 2:
            continue
        if "solve" in fname and not (built[0].pd and dense.shape[-1] == dense.shape[-2]):
            continue  # solves are defined for positive definite operators only (C04); what they do elsewhere is not a dispatch question
        for order, impl_args, ref_args in (("first", (op, Tn), (dense, Tn)), ("second", (Tn, op), (Tn, dense))):
            feat = {"name": name, "f": fname, "order": "bin-" + order, "kind": "sweep"}
            key = f"bin|{name}|{fname}|{order}"
            with warnings.catch_warnings():
                warnings.simplefilter("ignore")
                got = call(f, *impl_args)
                if isinstance(got, Raised):
                    if got.type in ("NotImplementedError", "TypeError") or not any(fr[0].startswith(env.LO_DIR) for fr in got.frames):
                        subs.append(result(OK, feat=feat, keys=[key], nontrivial=False))  # refused
                    elif got.type in ("NotPSDError", "NanError") or is_explicit_unsupported(got, r".*"):
                        subs.append(result(UNSUP, exc=got.type, msg=got.msg, feat=feat, keys=[key], nontrivial=False))  # outside the function's domain
                    else:
                        ref = call(f, *ref_args)
                        if isinstance(ref, Raised):
                            subs.append(result(OOD, feat=feat, keys=[key], msg=f"torch refuses as well: {ref.type}"))
                        else:
                            subs.append(result(VIOL, kind="mis-dispatch", exc=got.type, msg=f"{fname}[{order}]: {got.msg} @ {got.where()}", feat=feat, keys=[key]))
                    continue
                ref = call(f, *ref_args)
            if isinstance(ref, Raised):
                subs.append(result(OOD, feat=feat, keys=[key], msg=f"library answers where torch refuses: {ref.type}: {ref.msg[:60]}"))
                continue
            gd = got.to_dense() if hasattr(got, "to_dense") else got
            if not (torch.is_tensor(gd) and torch.is_tensor(ref)):
                subs.append(result(OOD, feat=feat, keys=[key], msg="non-tensor result"))
                continue
            if tuple(gd.shape) != tuple(ref.shape) or not torch.allclose(gd.to(torch.float64), ref.to(torch.float64), rtol=1e-6, atol=1e-8, equal_nan=True):
                d = (gd.to(torch.float64) - ref.to(torch.float64)).abs().max().item() if tuple(gd.shape) == tuple(ref.shape) else float("nan")
                subs.append(result(VIOL, kind="value", msg=f"{fname}[operator {order}] differs from the dense computation (shape {tuple(gd.shape)} vs {tuple(ref.shape)}, max diff {d:.3g})", feat=feat, keys=[key]))
            else:
                subs.append(result(OK, feat=feat, keys=[key]))
    return result(sub=subs, trans=len(subs) + 1)
