"""C11 - MINRES solves all shifted systems; contour quadrature gives the matrix root."""
import itertools
import math
import warnings

import torch

from vlib import env, refalgos as RA
from vlib.core import OK, OOD, VIOL, result
from vlib.oracles import Raised, call

ID = "C11"
TITLE = "MINRES solves all shifted systems; contour quadrature gives the matrix root"
TECHNIQUE = "exhaustive enumeration of (spectrum family x size x condition x batch x columns x shift batch kind x preconditioner x tolerance x iteration budget) on the real minres / contour_integral_quad / sqrt_inv_matmul; iterations are counted through the wrapped closure and the residual is checked against the MINRES convergence bound for that count; the quadrature is re-assembled from exact dense shifted solves"
RULE = (
    "MINRES: families {geom, unif, clustered} x n in {1,2,3,5,8,13,24,40} x cond {1e1,1e2,1e4} x batch {(),(2,)} x columns {vector,1,3 incl. zero column} x "
    "shifts {none, scalar, vector(3), batched} x preconditioner {none, jacobi, exact, argument-returning identity} x minres_tolerance {1e-4,1e-12} x "
    "max_iter {default, 3, n//2}; CIQ: same families x n <= 20 or cond <= 1e2 x num_contour_quadrature {8,15,25} x inverse {True,False} x operator "
    "classes {Dense, Diag, Identity, Kron, AddedDiag (with and without preconditioner)}; end-to-end sqrt_inv_matmul / lhs variant / CIQ sampling in the "
    "provably converged regime; non-trivial = n >= 2; distinct = (case)"
)
ASSUMPTIONS = ["MINRES stops on relative update size every 10th iteration, so its residual is judged against 2 rho^j for the COUNTED number j of matrix products (floor 1e-9 float64)",
               "quadrature accuracy 1e-6 relative is asserted only for n <= 20 or cond <= 1e2 (exact extreme-eigenvalue estimates), as the statement says"]
CHUNK = 30
CASE_TIMEOUT = 3600

from linear_operator.utils.minres import minres  # noqa: E402
from linear_operator.utils.contour_integral_quad import contour_integral_quad  # noqa: E402
import linear_operator  # noqa: E402
from linear_operator import operators as O  # noqa: E402


def cases(tier, seed):
    out = []
    fams = ["geom", "unif", "clustered"]
    ns = [1, 2, 5, 13, 24] if tier == "quick" else [1, 2, 3, 5, 8, 13, 24, 40]
    for fam, n, cond, b, cols, sh, pre, tol, mi in itertools.product(
            fams, ns, [10.0, 1e2, 1e4], [[], [2]], ["vec", "one", "three0"], ["none", "scalar", "vector", "vector_rev", "batched"],
            ["none", "jacobi", "exact", "alias"], [1e-4, 1e-12], ["default", "3", "half"]):
        if cols == "vec" and b:
            continue
        if tier == "quick" and ((mi != "default" and (pre != "none" or sh == "batched")) or (tol == 1e-4 and pre in ("exact",)) or (b and cond == 1e2)):
            continue
        if sh == "batched" and not b:
            continue
        out.append({"k": "minres", "fam": fam, "n": n, "cond": cond, "b": b, "cols": cols, "sh": sh, "pre": pre, "tol": tol, "mi": mi})
    for fam, n, cond, nq, inv, cls in itertools.product(fams, [2, 5, 13, 20] + ([40] if tier == "thorough" else []), [10.0, 1e2], [8, 15, 25], [True, False],
                                                        ["Dense", "Diag", "Identity", "Kron", "AddedDiag", "AddedDiagPre"]):
        for b in ([], [2]):
            if cls in ("Identity",) and (fam != "geom" or cond != 10.0):
                continue
            out.append({"k": "ciq", "fam": fam, "n": n, "cond": cond, "nq": nq, "inv": inv, "cls": cls, "b": b})
    for fam, n, cls, lhs in itertools.product(fams, [2, 4, 6], ["Dense", "Diag", "Identity", "AddedDiag"], [False, True]):
        for b in ([], [2]):
            out.append({"k": "e2e", "fam": fam, "n": n, "cls": cls, "lhs": lhs, "b": b})
    return out


def bounds(tier):
    return {"n": "1..24 (quick) / 1..40 (thorough)", "cond": [10, 100, 1e4], "shifts": ["none", "scalar", "vector(3)", "batched (3 x batch)"],
            "minres_tolerance": [1e-4, 1e-12], "num_contour_quadrature": [8, 15, 25]}


def make_pre(kind, A):
    n = A.shape[-1]
    if kind == "none":
        return None, torch.eye(n, dtype=A.dtype).expand_as(A)
    if kind == "alias":
        return (lambda v: v), torch.eye(n, dtype=A.dtype).expand_as(A)
    if kind == "jacobi":
        P = torch.diag_embed(1.0 / A.diagonal(dim1=-2, dim2=-1))
    else:
        P = torch.linalg.inv(A)
        P = 0.5 * (P + P.mT)
    return (lambda v: P @ v), P


def run(case):
    feat = {kk: (str(v) if isinstance(v, list) else v) for kk, v in case.items()}
    key = repr(sorted((a, str(b)) for a, b in case.items()))
    if case["k"] == "minres":
        return run_minres(case, feat, key)
    if case["k"] == "ciq":
        return run_ciq(case, feat, key)
    return run_e2e(case, feat, key)


def run_minres(case, feat, key):
    n = case["n"]
    b = tuple(case["b"])
    K, lam = RA.spd(case["fam"], n, case["cond"], 1.0, f"M{case['fam']}{n}", env.SEED, b)
    cols = case["cols"]
    if cols == "vec":
        rhs = torch.randn(n, generator=RA.gen("mv", env.SEED), dtype=torch.float64)
    else:
        rhs = torch.randn(*b, n, 1 if cols == "one" else 3, generator=RA.gen("mm", env.SEED), dtype=torch.float64)
        if cols == "three0":
            rhs[..., 1] = 0.0
    sh = case["sh"]
    shifts = {"none": None, "scalar": torch.tensor(0.7, dtype=torch.float64), "vector": torch.tensor([0.0, 0.5, 3.0], dtype=torch.float64), "vector_rev": torch.tensor([100.0, 3.0, 0.0], dtype=torch.float64),
              "batched": (torch.tensor([0.0, 0.5, 3.0], dtype=torch.float64).reshape(3, *([1] * len(b))) + 0.1 * torch.arange(max(1, int(torch.Size(b).numel())), dtype=torch.float64).reshape(1, *b)) if b else None}[sh]
    pre, P = make_pre(case["pre"], K)
    env.set_settings({"minres_tolerance": case["tol"]})
    mi = {"default": None, "3": 3, "half": max(1, n // 2)}[case["mi"]]
    count = [0]

    def mm(v):
        count[0] += 1
        return K @ v
    rhs0 = rhs.clone()
    got = call(minres, mm, rhs, shifts=shifts, preconditioner=pre, max_iter=mi)
    nontriv = n >= 2
    if isinstance(got, Raised):
        return result(VIOL, kind="internal-error", exc=got.type, msg=f"{got.msg} @ {got.where()}", feat=feat, keys=[key], nontrivial=nontriv)
    if not torch.equal(rhs, rhs0):
        return result(VIOL, kind="mutation", msg="minres modified the right-hand side", feat=feat, keys=[key], nontrivial=nontriv)
    svals = torch.zeros(1, dtype=torch.float64) if shifts is None else shifts
    multi = svals.numel() > 1
    R2 = rhs.unsqueeze(-1) if cols == "vec" else rhs
    exp_shape = (*( (svals.shape[0],) if multi else ()), *torch.broadcast_shapes(b, R2.shape[:-2]), *R2.shape[-2:])
    if cols == "vec":
        exp_shape = exp_shape[:-1]
    if tuple(got.shape) != tuple(exp_shape):
        return result(VIOL, kind="shape", msg=f"solution shape {tuple(got.shape)}, expected {tuple(exp_shape)} (shifts {sh}, rhs {tuple(rhs.shape)})", feat=feat, keys=[key], nontrivial=nontriv)
    if not torch.isfinite(got).all():
        return result(VIOL, kind="nan", msg="NaN/Inf in the MINRES solution", feat=feat, keys=[key], nontrivial=nontriv)
    X = got.unsqueeze(-1) if cols == "vec" else got
    if not multi:
        X = X.unsqueeze(0)
    sv = svals.reshape(-1) if svals.dim() <= 1 else svals
    j = max(count[0] - 1, 0)  # products after the set-up product
    worst = 0.0
    eye = torch.eye(n, dtype=torch.float64)
    for qi in range(X.shape[0]):
        s = sv[qi] if sv.dim() <= 1 else sv[qi]
        s = s if torch.is_tensor(s) else torch.tensor(s)
        # with a preconditioner P^-1 the Lanczos basis is P-orthonormal, so a shift s acts as s * P (P = inverse of the closure)
        M = eye if case["pre"] in ("none", "alias") else torch.linalg.inv(P)
        Ks = K + (s.reshape(*s.shape, 1, 1) if s.dim() else s) * M
        res = (Ks @ X[qi] - R2).norm(dim=-2)
        rn = R2.norm(dim=-2)
        rel = res / rn.clamp_min(1e-300)
        rel = torch.where(rn < 1e-10, torch.zeros_like(rel), rel)
        # zero right-hand sides give exactly zero
        zc = (rn < 1e-10).unsqueeze(-2).expand_as(X[qi])
        if zc.any() and X[qi][zc].abs().max() != 0:
            return result(VIOL, kind="zero-column", msg="zero right-hand side column gave a non-zero solution", feat=feat, keys=[key], nontrivial=nontriv)
        # convergence bound for the (preconditioned) shifted system after j Lanczos steps (residual in the P^-1 norm)
        ev = torch.linalg.eigvals(P @ Ks).real if case["pre"] not in ("none", "alias") else torch.linalg.eigvalsh(Ks)
        kappa = (ev.amax() / ev.amin().clamp_min(1e-300)).item()
        rho = (math.sqrt(kappa) - 1) / (math.sqrt(kappa) + 1)
        jj = min(j, n + 2)
        pev = torch.linalg.eigvalsh(P)
        pfac = 1.0 if case["pre"] in ("none", "alias") else math.sqrt((pev.amax() / pev.amin().clamp_min(1e-300)).item())
        floor = 1e-9 * max(1.0, kappa) * pfac
        bound = max(2 * rho ** jj * pfac, floor)
        if n <= 6 and kappa <= 200 and jj >= n + 1:
            bound = 1e-7 * pfac  # finite termination is numerically reliable here
        worst = max(worst, (rel.max().item() / bound))
        if rel.max().item() > bound:
            return result(VIOL, kind="residual", msg=f"shift #{qi}: relative residual {rel.max().item():.3g} > bound {bound:.3g} after {j} matrix products (kappa {kappa:.3g}, n={n})", feat=feat, keys=[key], nontrivial=nontriv)
    # the stopping rule: a run that ends before its iteration budget must satisfy the documented criterion on the state it returns -
    # the mean over ALL shifts, batch members and columns of |last update| / |solution| is below minres_tolerance. The last update is
    # recovered exhaustively-deterministically as the difference to the run with one iteration less.
    def run_budget(tolv, budget):
        env.set_settings({"minres_tolerance": tolv})
        cnt = [0]

        def mmc(v):
            cnt[0] += 1
            return K @ v
        out = call(minres, mmc, rhs, shifts=shifts, preconditioner=pre, max_iter=budget)
        env.set_settings({"minres_tolerance": case["tol"]})
        return out, cnt[0]
    full, count_full = run_budget(0.0, mi)
    if not isinstance(full, Raised) and count[0] < count_full:
        _, c1 = run_budget(0.0, 1)
        setup = c1 - 3  # the loop runs max_iter + 2 times
        iters = count[0] - setup
        prev, cprev = run_budget(0.0, iters - 3)
        feat = dict(feat, early_stop=iters)
        if iters - 3 >= 0 and not isinstance(prev, Raised) and cprev == count[0] - 1:
            Xp = prev.unsqueeze(-1) if cols == "vec" else prev
            Xp = Xp if multi else Xp.unsqueeze(0)
            upd = (X - Xp).norm(dim=-2)
            conv = (upd / X.norm(dim=-2)).mean().item()
            if not conv < case["tol"] * 1.5 + 1e-14:
                return result(VIOL, kind="stopping-rule", msg=f"stopped after {iters} iterations (budget allows {count_full - setup}) although the mean relative update over all "
                              f"shifts and columns is {conv:.3g} >= minres_tolerance {case['tol']:g}", feat=feat, keys=[key], nontrivial=nontriv)
    # exact power-of-two scaling
    got2 = call(minres, K.matmul, rhs * 4.0, shifts=shifts, preconditioner=pre, max_iter=mi)
    got1 = call(minres, K.matmul, rhs, shifts=shifts, preconditioner=pre, max_iter=mi)
    if isinstance(got2, Raised) or isinstance(got1, Raised) or not torch.equal(got1 * 4.0, got2):
        return result(VIOL, kind="scaling", msg="x(4 b) != 4 x(b) exactly", feat=feat, keys=[key], nontrivial=nontriv)
    return result(OK, feat=feat, keys=[key], nontrivial=nontriv, ratio=worst, trans=count[0] + 3)


def make_op(cls, n, fam, cond, b, seed):
    K, lam = RA.spd(fam, n, cond, 1.0, f"Q{fam}{n}", seed, b)
    if cls == "Dense":
        return O.DenseLinearOperator(K), K
    if cls == "Diag":
        d = RA.spectrum(fam, n, cond).expand(*b, n).contiguous()
        return O.DiagLinearOperator(d), torch.diag_embed(d)
    if cls == "Identity":
        return O.IdentityLinearOperator(n, batch_shape=torch.Size(b), dtype=torch.float64), torch.eye(n, dtype=torch.float64).expand(*b, n, n)
    if cls == "Kron":
        S = torch.tensor([[2.0, 0.5], [0.5, 1.0]], dtype=torch.float64).expand(*b, 2, 2)
        from vlib.recipes import bkron
        return O.KroneckerProductLinearOperator(O.DenseLinearOperator(S), O.DenseLinearOperator(K)), bkron(S, K)
    d = torch.full((*b, n), 0.5, dtype=torch.float64)
    return O.AddedDiagLinearOperator(O.DenseLinearOperator(K), O.DiagLinearOperator(d)), K + torch.diag_embed(d)


def mat_fun(A, p):
    w, V = torch.linalg.eigh(A)
    return (V * w.pow(p).unsqueeze(-2)) @ V.mT


def run_ciq(case, feat, key):
    n = case["n"]
    b = tuple(case["b"])
    op, A = make_op(case["cls"].replace("Pre", ""), n, case["fam"], case["cond"], b, env.SEED)
    N = A.shape[-1]
    if case["cls"] == "AddedDiagPre":
        env.set_settings({"min_preconditioning_size": 0, "max_preconditioner_size": 2})
    env.set_settings({"minres_tolerance": 1e-12})
    rhs = torch.randn(*b, N, 2, generator=RA.gen("cq", env.SEED), dtype=torch.float64)
    got = call(contour_integral_quad, op, rhs, inverse=case["inv"], num_contour_quadrature=case["nq"])
    if isinstance(got, Raised):
        return result(VIOL, kind="internal-error", exc=got.type, msg=f"{got.msg} @ {got.where()}", feat=feat, keys=[key])
    solves, weights, no_shift, shifts = got
    if solves.shape[0] != case["nq"] or weights.shape[0] != case["nq"] or shifts.shape[0] != case["nq"] + 1:
        return result(VIOL, kind="shape", msg=f"solves {tuple(solves.shape)}, weights {tuple(weights.shape)}, shifts {tuple(shifts.shape)} for {case['nq']} quadrature points", feat=feat, keys=[key])
    approx = (solves * weights).sum(0)
    if not torch.isfinite(approx).all():
        return result(VIOL, kind="nan", msg="NaN/Inf in the quadrature result", feat=feat, keys=[key])
    pre = op._preconditioner()[1] if case["cls"] == "AddedDiagPre" else None
    rhs_eff = rhs
    if pre is not None:
        # preconditioned variant: the result is R b with a (non-symmetric) root R, R R^T = K^-1 (inverse) or K (otherwise). Identify R
        # column by column (the quadrature nodes depend on b only through the eigenvalue estimates) and multiply it out.
        eye = torch.eye(N, dtype=torch.float64).expand(*A.shape[:-2], N, N).contiguous()
        gotI = call(contour_integral_quad, op, eye, inverse=case["inv"], num_contour_quadrature=case["nq"])
        if isinstance(gotI, Raised):
            return result(VIOL, kind="internal-error", exc=gotI.type, msg=f"{gotI.msg} @ {gotI.where()}", feat=feat, keys=[key])
        solves_I, weights_I = gotI[0], gotI[1]
        Rm_ = (solves_I * weights_I).sum(0) if solves_I.dim() > eye.dim() else solves_I
        tgt = torch.linalg.inv(A) if case["inv"] else A
        kappa = (torch.linalg.eigvalsh(A).amax() / torch.linalg.eigvalsh(A).amin()).item()
        qerr = math.exp(-2 * math.pi ** 2 * case["nq"] / (math.log(kappa) + 6.0))
        tolp = max(1e-5, 200 * qerr) * max(1.0, tgt.abs().amax().item()) * (1e2 if (N > 20 and kappa > 100) else 1.0)
        dp = (Rm_ @ Rm_.mT - tgt).abs().amax().item()
        if not dp <= tolp:
            return result(VIOL, kind="quadrature", msg=f"preconditioned quadrature: R R^T differs from K^{'-1' if case['inv'] else '1'} by {dp:.3g} (tol {tolp:.3g}, kappa {kappa:.3g}, nq {case['nq']})", feat=feat, keys=[key])
        return result(OK, feat=feat, keys=[key], ratio=dp / tolp, trans=case["nq"] + 2)
    target = mat_fun(A, -0.5 if case["inv"] else 0.5) @ rhs_eff
    kappa = (torch.linalg.eigvalsh(A).amax() / torch.linalg.eigvalsh(A).amin()).item()
    # quadrature error of the elliptic-function rule: ~ exp(-2 pi^2 nq / (log(kappa) + 3)); require 1e-6 only where that is attainable
    qerr = math.exp(-2 * math.pi ** 2 * case["nq"] / (math.log(kappa) + 6.0))
    tol = max(1e-6, 50 * qerr) * max(1.0, target.abs().amax().item())
    if N > 20 and kappa > 100:
        # outside the regime in which the 20-step Lanczos estimate of the extreme eigenvalues is exact (see statement)
        tol = max(tol, 1e-3 * max(1.0, target.abs().amax().item()))
    d = (approx - target).abs().amax().item()
    if d > tol:
        return result(VIOL, kind="quadrature", msg=f"weighted sum differs from K^({'-' if case['inv'] else ''}1/2) b by {d:.3g} (tol {tol:.3g}, kappa {kappa:.3g}, nq {case['nq']})", feat=feat, keys=[key])
    # the no-shift solve solves (-K) x = b
    d0 = (A @ no_shift + rhs).abs().amax().item()
    if d0 > 1e-6 * max(1.0, rhs.abs().amax().item()) * kappa:
        return result(VIOL, kind="noshift", msg=f"the unshifted solve does not satisfy -K x = b (error {d0:.3g})", feat=feat, keys=[key])
    # returned shifted solves (inverse=True) solve (-K + s_q I) x = b
    if case["inv"]:
        eye = torch.eye(N, dtype=torch.float64)
        for q in range(case["nq"]):
            s = shifts[q + 1]
            Ks = -A + s.reshape(*s.shape, 1, 1) * eye if s.dim() else -A + s * eye
            r = (Ks @ solves[q] - rhs).abs().amax().item()
            if r > 1e-6 * max(1.0, rhs.abs().amax().item()) * kappa:
                return result(VIOL, kind="shifted-solve", msg=f"solve #{q} does not satisfy (-K + s I) x = b (error {r:.3g}, s={s.flatten()[0].item():.4g})", feat=feat, keys=[key])
    return result(OK, feat=feat, keys=[key], ratio=d / tol, trans=case["nq"] + 2)


def run_e2e(case, feat, key):
    n = case["n"]
    b = tuple(case["b"])
    op, A = make_op(case["cls"], n, case["fam"], 10.0, b, env.SEED)
    N = A.shape[-1]
    env.set_settings({"minres_tolerance": 1e-12, "num_contour_quadrature": 25})
    Rm = torch.randn(*b, N, 2, generator=RA.gen("e2", env.SEED), dtype=torch.float64)
    Ainv = torch.linalg.inv(A)
    tol = 1e-4
    if not case["lhs"]:
        half = call(op.sqrt_inv_matmul, Rm)
        if isinstance(half, Raised):
            return result(VIOL, kind="internal-error", exc=half.type, msg=f"sqrt_inv_matmul: {half.msg} @ {half.where()}", feat=feat, keys=[key])
        full = call(op.sqrt_inv_matmul, half)
        if isinstance(full, Raised):
            return result(VIOL, kind="internal-error", exc=full.type, msg=f"sqrt_inv_matmul twice: {full.msg} @ {full.where()}", feat=feat, keys=[key])
        ref = Ainv @ Rm
        d = (full - ref).abs().amax().item() / max(1.0, ref.abs().amax().item())
        if tuple(full.shape) != tuple(ref.shape) or d > tol:
            return result(VIOL, kind="value", msg=f"sqrt_inv_matmul applied twice differs from A^-1 R by {d:.3g} (shape {tuple(full.shape)})", feat=feat, keys=[key])
        return result(OK, feat=feat, keys=[key], ratio=d / tol)
    Lm = torch.randn(*b, 3, N, generator=RA.gen("e2l", env.SEED), dtype=torch.float64)
    got = call(op.sqrt_inv_matmul, Rm, Lm)
    if isinstance(got, Raised):
        return result(VIOL, kind="internal-error", exc=got.type, msg=f"sqrt_inv_matmul(rhs, lhs): {got.msg} @ {got.where()}", feat=feat, keys=[key])
    res, iq = got
    ref = Lm @ mat_fun(A, -0.5) @ Rm
    refq = (Lm @ Ainv * Lm).sum(-1)
    d = (res - ref).abs().amax().item() / max(1.0, ref.abs().amax().item())
    if tuple(res.shape) != tuple(ref.shape) or d > tol:
        return result(VIOL, kind="value", msg=f"lhs A^-1/2 rhs differs by {d:.3g} (shape {tuple(res.shape)} vs {tuple(ref.shape)})", feat=feat, keys=[key])
    dq = (iq - refq).abs().amax().item() / max(1.0, refq.abs().amax().item()) if tuple(iq.shape) == tuple(refq.shape) else float("inf")
    if dq > tol:
        return result(VIOL, kind="inv-quad", msg=f"second output differs from diag(L A^-1 L^T) by {dq:.3g} (shape {tuple(iq.shape)} vs {tuple(refq.shape)})", feat=feat, keys=[key])
    return result(OK, feat=feat, keys=[key], ratio=max(d, dq) / tol)
