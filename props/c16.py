"""C16 - psd_safe_cholesky perturbs minimally, per batch member, or fails loudly."""
import itertools
import warnings

import torch

from vlib import env
from vlib.core import OK, OOD, VIOL, result
from vlib.oracles import Raised, call

ID = "C16"
TITLE = "psd_safe_cholesky perturbs minimally, per batch member, or fails loudly"
TECHNIQUE = "exhaustive enumeration of batch patterns over a member alphabet with prescribed smallest eigenvalue (margins >= 3.3x from every jitter threshold) x jitter/max_tries sources x upper x dtype on the real psd_safe_cholesky; the per-member perturbation is inferred from the returned factor and compared with a reference model of the specification"
RULE = (
    "member kinds {PD, exactly singular, lambda_min = -0.3j, -3j, -30j, -300j, -3000j, NaN} ; all batch patterns of length <= 3 "
    "(and one 2x2 batch) x n in {1,2,3,5} x jitter source {explicit 1e-3, explicit 1e-6 (float64), settings} x max_tries {1,3,4,settings} "
    "x upper x dtype, plus DenseLinearOperator.cholesky(); non-trivial = at least one member is not comfortably PD; distinct = full case"
)
ASSUMPTIONS = ["float32 runs use jitter 1e-3 only (1e-6 is within float32 roundoff of a unit-norm matrix, so try outcomes would be rounding-borderline)",
               "the exactly singular member may legitimately succeed unperturbed or take the first jitter"]
CHUNK = 200
DTS = {"f64": torch.float64, "f32": torch.float32}
KINDS = ["pd", "sing", "n0.3", "n3", "n30", "n300", "n3000", "nan"]

from linear_operator.utils.cholesky import psd_safe_cholesky  # noqa: E402
from linear_operator.utils.errors import NanError, NotPSDError  # noqa: E402
from linear_operator.utils.warnings import NumericalWarning  # noqa: E402
import linear_operator  # noqa: E402


def cases(tier, seed):
    out = []
    ns = [1, 3] if tier == "quick" else [1, 2, 3, 5]
    pats = [[k] for k in KINDS]
    pats += [list(p) for p in itertools.product(KINDS, repeat=2)]
    if tier == "thorough":
        pats += [list(p) for p in itertools.product(["pd", "sing", "n0.3", "n3", "n30", "n300", "nan"], repeat=3)]
    else:
        pats += [list(p) for p in itertools.product(["pd", "n0.3", "n30", "n300"], repeat=3)]
    for n in ns:
        for pat in pats:
            for dt, jit in (("f64", "e1e-3"), ("f64", "e1e-6"), ("f64", "settings"), ("f32", "e1e-3"), ("f32", "settings")):
                for mt in (1, 3, 4, "settings"):
                    for upper in (False, True):
                        if tier == "quick" and len(pat) == 3 and (upper or mt == 4 or jit == "e1e-6"):
                            continue
                        out.append({"n": n, "pat": pat, "dt": dt, "jit": jit, "mt": mt, "upper": upper, "via": "fn", "shape": "flat"})
    # 2x2 batch and the operator entry point
    for n in ns:
        for pat in (["pd", "n3", "n30", "pd"], ["n0.3", "pd", "pd", "n300"], ["pd", "pd", "pd", "pd"]):
            for dt in ("f64", "f32"):
                for upper in (False, True):
                    out.append({"n": n, "pat": pat, "dt": dt, "jit": "settings", "mt": "settings", "upper": upper, "via": "fn", "shape": "2x2"})
                    if n >= 2:  # (1x1 operators take a closed-form square root, not psd_safe_cholesky)
                        out.append({"n": n, "pat": pat[:2], "dt": dt, "jit": "settings", "mt": "settings", "upper": upper, "via": "op", "shape": "flat"})
    return out


def bounds(tier):
    return {"n": "1,3 (quick) / 1,2,3,5 (thorough)", "member_kinds": KINDS, "batch_patterns": "all of length 1,2 and a 4^3 (quick) / 7^3 (thorough) cube of length 3; one 2x2 batch",
            "max_tries": [1, 3, 4, "settings(3)"], "jitter": ["1e-3", "1e-6 (f64)", "settings (1e-3 set through the settings slot for f32, default 1e-8 for f64)"]}


def member(kind, n, j, dt, tag):
    """symmetric matrix with unit-scale spectrum and prescribed smallest eigenvalue"""
    g = torch.Generator()
    g.manual_seed((abs(hash(tag)) + 31 * env.SEED) % (2**31))
    v = torch.randn(n, n, generator=g, dtype=torch.float64)
    Q, _ = torch.linalg.qr(v)
    lam = torch.linspace(0.5, 1.0, n, dtype=torch.float64)
    if kind == "sing":
        lam[0] = 0.0
    elif kind.startswith("n") and kind != "nan":
        lam[0] = -float(kind[1:]) * j
    A = (Q * lam) @ Q.mT
    A = 0.5 * (A + A.mT)
    if kind == "nan":
        A[n - 1, 0] = float("nan")
        A[0, n - 1] = float("nan")
    return A.to(dt)


def run(case):
    n, dt = case["n"], DTS[case["dt"]]
    pat = case["pat"]
    jit_src, mt = case["jit"], case["mt"]
    if jit_src.startswith("e"):
        j = float(jit_src[1:])
        jarg = j
    else:
        if dt == torch.float32:
            env.set_settings({"cholesky_jitter_float": 1e-3})
            j = 1e-3
        else:
            j = env.settings.cholesky_jitter.value(torch.float64)
        jarg = None
    if mt == "settings":
        tries, mtarg = env.settings.cholesky_max_tries.value(), None
    else:
        tries, mtarg = mt, mt
    mats = [member(k, n, j, dt, f"m{i}{k}") for i, k in enumerate(pat)]
    A = torch.stack(mats) if len(mats) > 1 or case["shape"] == "2x2" else mats[0]
    if case["shape"] == "2x2":
        A = A.reshape(2, 2, n, n)
    A0 = A.clone()
    ver0 = A._version
    feat = {"n": n, "dt": case["dt"], "jit": jit_src, "mt": str(mt), "upper": case["upper"], "via": case["via"], "len": len(pat),
            "kinds": "+".join(sorted(set(pat)))}
    key = repr(sorted((k, str(v)) for k, v in case.items()))
    nontriv = any(k != "pd" for k in pat)
    # ---- reference model of the specification --------------------------------------------------
    need = []
    for k in pat:
        if k == "nan":
            need.append("nan")
        elif k in ("pd",):
            need.append(0)
        elif k == "sing":
            need.append("0or1")
        else:
            delta = float(k[1:])
            i = next((i for i in range(12) if 10 ** i > delta), None)
            need.append(i + 1)  # number of tries needed
    if "nan" in need:
        expect = "NanError"
    elif any(isinstance(x, int) and x > tries for x in need):
        expect = "NotPSDError"
    else:
        expect = "ok"
    # ---- implementation ---------------------------------------------------------------------------
    with warnings.catch_warnings(record=True) as wl:
        warnings.simplefilter("always")
        if case["via"] == "fn":
            got = call(psd_safe_cholesky, A, upper=case["upper"], jitter=jarg, max_tries=mtarg)
        else:
            got = call(lambda: linear_operator.operators.DenseLinearOperator(A).cholesky(upper=case["upper"]).to_dense())
    warned = any(issubclass(w.category, NumericalWarning) for w in wl)
    mutated = A._version != ver0 or not torch.equal(torch.nan_to_num(A, nan=7.0), torch.nan_to_num(A0, nan=7.0))
    if mutated:
        return result(VIOL, kind="mutation", msg="psd_safe_cholesky modified its input A", feat=feat, keys=[key], nontrivial=nontriv)
    if isinstance(got, Raised):
        if got.type == expect:
            return result(OK, feat=feat, keys=[key], nontrivial=nontriv)
        if expect == "ok" and "0or1" in need and got.type == "NotPSDError" and tries == 0:
            return result(OK, feat=feat, keys=[key], nontrivial=nontriv)
        return result(VIOL, kind="wrong-error" if expect != "ok" else "internal-error", exc=got.type,
                      msg=f"raised {got.type} ({got.msg[:80]}), specification expects {expect}; members {pat}, tries {tries}", feat=feat, keys=[key], nontrivial=nontriv)
    if expect != "ok":
        return result(VIOL, kind="no-error", msg=f"returned a factor, specification expects {expect}; members {pat}, tries {tries}, jitter {j}", feat=feat, keys=[key], nontrivial=nontriv)
    L = got
    if not torch.isfinite(L).all():
        return result(VIOL, kind="nan", msg="factor contains NaN/Inf", feat=feat, keys=[key], nontrivial=nontriv)
    if tuple(L.shape) != tuple(A.shape) or L.dtype != A.dtype:
        return result(VIOL, kind="shape", msg=f"factor shape/dtype {tuple(L.shape)} {L.dtype}", feat=feat, keys=[key], nontrivial=nontriv)
    tri = torch.triu(L) if case["upper"] else torch.tril(L)
    if not torch.equal(tri, L):
        return result(VIOL, kind="value", msg=f"factor is not {'upper' if case['upper'] else 'lower'} triangular", feat=feat, keys=[key], nontrivial=nontriv)
    rec = (L.mT @ L) if case["upper"] else (L @ L.mT)
    E = (rec - A).to(torch.float64).reshape(-1, n, n)
    eps = torch.finfo(dt).eps
    tol_round = 50 * eps * n
    worst = 0.0
    any_jit = False
    for mi, (k, nd) in enumerate(zip(pat, need)):
        Em = E[mi]
        dg = Em.diagonal()
        jm = dg.mean().item()
        off = (Em - torch.diag(dg)).abs().max().item() if n > 1 else 0.0
        spread = (dg - jm).abs().max().item()
        if off > tol_round or spread > tol_round:
            return result(VIOL, kind="value", msg=f"member {mi} ({k}): L L^T - A is not a multiple of I (offdiag {off:.2g}, spread {spread:.2g})", feat=feat, keys=[key], nontrivial=nontriv)
        cands = [0.0] + [j * 10 ** i for i in range(tries)]
        allowed = {0: [0.0], "0or1": [0.0, j]}.get(nd, None)
        if allowed is None:
            allowed = [j * 10 ** (nd - 1)]  # minimal jitter that works
        ok = any(abs(jm - a) <= 1e-3 * a + tol_round for a in allowed)
        if not ok:
            on_grid = any(abs(jm - a) <= 1e-3 * a + tol_round for a in cands)
            return result(VIOL, kind="value", msg=f"member {mi} ({k}) was perturbed by {jm:.3g}; specification allows {allowed} (on the jitter grid: {on_grid}); members {pat}", feat=feat, keys=[key], nontrivial=nontriv)
        if jm > tol_round:
            any_jit = True
        worst = max(worst, off / tol_round, spread / tol_round)
    if any_jit != warned and not ("0or1" in need and not any(isinstance(x, int) and x > 0 for x in need)):
        return result(VIOL, kind="warning", msg=f"NumericalWarning emitted={warned} but perturbation applied={any_jit}", feat=feat, keys=[key], nontrivial=nontriv)
    if any(isinstance(x, int) and x > 0 for x in need) and not warned:
        return result(VIOL, kind="warning", msg="jitter was required but no NumericalWarning was emitted", feat=feat, keys=[key], nontrivial=nontriv)
    return result(OK, feat=feat, keys=[key], nontrivial=nontriv, ratio=worst)
