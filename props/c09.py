"""C09 - Lanczos returns an orthonormal basis and the projected tridiagonal."""
import itertools

import torch

from vlib import env, refalgos as RA
from vlib.core import OK, OOD, VIOL, result
from vlib.oracles import Raised, call

ID = "C09"
TITLE = "Lanczos returns an orthonormal basis and the projected tridiagonal"
TECHNIQUE = "exhaustive enumeration of (spectrum family x size x batch x start-vector kind x every iteration budget 1..n+2 x dtype) on the real lanczos_tridiag and its consumers; the Lanczos relations are checked as invariants on every budget-prefix state"
RULE = (
    "families {geometric, uniform, clustered, repeated, rank-deficient, identity, diagonal with e1 / ones start} x n in 2..64 x batch {(),(2,),(2,2)} x "
    "start vectors {supplied single, supplied multiple, random} x max_iter = 1..n+2 x dtype; invariants per run: no NaN, columns orthonormal or exactly "
    "zero after a breakdown, T symmetric tridiagonal, Q^T A Q = T, A Q - Q T supported in the last column, Q T Q^T = A when the basis is complete; "
    "consumers: lanczos root / inverse root / diagonalization equal the orthogonal compression of A (resp. A^-1) onto span(R), and A (A^-1) itself "
    "at full rank with distinct eigenvalues; non-trivial = n >= 2 and budget >= 2; distinct = (case, budget)"
)
ASSUMPTIONS = ["orthogonality / projection tolerances: 1e-4 relative in float64 (the algorithm's own re-orthogonalisation threshold is 1e-5), 5e-3 in float32",
               "consumer checks use cond <= 1e3 and allow the documented tridiagonal jitter (1e-6 relative)"]
CHUNK = 30
CASE_TIMEOUT = 3600
DTS = {"f64": torch.float64, "f32": torch.float32}

from linear_operator.utils.lanczos import lanczos_tridiag  # noqa: E402
import linear_operator  # noqa: E402


def matrix(fam, n, batch, seed):
    if fam == "identity":
        A = torch.eye(n, dtype=torch.float64).expand(*batch, n, n).clone()
    elif fam in ("diag_e1", "diag_ones"):
        A = torch.diag_embed(torch.arange(1.0, n + 1, dtype=torch.float64)).expand(*batch, n, n).clone()
    elif fam == "diag_pairs":  # eigenvalues 1,1,2,2,3,3,..: from the all-ones start the Krylov space has dimension ceil(n/2) (exact breakdown mid-run)
        A = torch.diag_embed(torch.arange(n, dtype=torch.float64).div(2, rounding_mode="floor") + 1.0).expand(*batch, n, n).clone()
    elif fam == "hetero":  # a batch whose last member (2 I) breaks down at the first step while the others keep going
        A, _ = RA.spd("unif", n, 100.0, 1.0, f"Lhet{n}", seed, batch)
        if batch:
            A = A.clone()
            A[(-1,) * len(batch)] = 2.0 * torch.eye(n, dtype=torch.float64)
    elif fam == "rankdef":
        mats = []
        for i in range(max(1, int(torch.Size(batch).numel()))):
            Q = RA.orth(n, f"rd{n}|{i}", seed)
            lam = RA.spectrum("unif", n, 10.0)
            lam[: max(1, n // 3)] = 0.0
            mats.append((Q * lam) @ Q.mT)
        A = torch.stack(mats).reshape(*batch, n, n) if batch else mats[0]
    else:
        A, _ = RA.spd(fam, n, 100.0, 1.0, f"L{fam}{n}", seed, batch)
    return 0.5 * (A + A.mT)


def cases(tier, seed):
    out = []
    fams = ["geom", "unif", "clustered", "repeated", "rankdef", "identity", "diag_e1", "diag_ones", "diag_pairs", "hetero"]
    ns = [2, 3, 5, 8, 16] if tier == "quick" else [2, 3, 4, 5, 8, 13, 16, 33, 64]
    for fam, n, b, init, dt in itertools.product(fams, ns, [[], [2], [2, 2]], ["single", "multi", "random"], ["f64", "f32"]):
        if len(b) == 2 and (n > 8 or init == "multi"):
            continue
        if tier == "quick" and dt == "f32" and (b or n > 8):
            continue
        out.append({"k": "tridiag", "fam": fam, "n": n, "b": b, "init": init, "dt": dt})
    # (n = 24 and 40 lie above every built-in iteration constant (20 quadrature / 15 preconditioner steps) and below the rank bound)
    for fam, n, b, method in itertools.product(["geom", "unif", "clustered", "repeated"], [3, 5, 8, 24] + ([13, 20, 40] if tier == "thorough" else []), [[], [2]],
                                               ["root", "root_inv", "root_inv_vectors", "diagonalization"]):
        for budget in ("full", "half"):
            out.append({"k": "consumer", "fam": fam, "n": n, "b": b, "method": method, "budget": budget})
    # rank-deficient matrices in single precision: the jittered T has eigenvalues of both signs around zero, which the post-processing
    # masks (roots and diagonalizations only: the inverse is undefined)
    for n, b, method in itertools.product([3, 5, 8], [[], [2]], ["root", "diagonalization"]):
        for dtn in ("f32", "f64"):
            out.append({"k": "consumer", "fam": "rankdef", "n": n, "b": b, "method": method, "budget": "full", "dt": dtn})
    return out


def bounds(tier):
    return {"n": "2..16 (quick) / 2..64 (thorough)", "budgets": "max_iter = 1..n+2 (all)", "batches": "(),(2,),(2,2)", "init": ["single", "multi(3)", "random"]}


def run(case):
    feat = {kk: (str(v) if isinstance(v, list) else v) for kk, v in case.items()}
    key = repr(sorted((a, str(b)) for a, b in case.items()))
    if case["k"] == "consumer":
        return run_consumer(case, feat, key)
    n, dt = case["n"], DTS[case["dt"]]
    b = tuple(case["b"])
    A64 = matrix(case["fam"], n, b, env.SEED)
    A = A64.to(dt)
    A64 = A.double()
    init = case["init"]
    if case["fam"] == "diag_e1":
        v = torch.zeros(*b, n, 1, dtype=dt)
        v[..., 0, :] = 1.0
        if init == "multi":
            v = torch.cat([v, torch.ones(*b, n, 1, dtype=dt), torch.randn(*b, n, 1, generator=RA.gen("v3", env.SEED), dtype=torch.float64).to(dt)], -1)
    elif case["fam"] in ("diag_ones", "diag_pairs"):
        v = torch.ones(*b, n, 1 if init != "multi" else 3, dtype=dt)
    else:
        v = torch.randn(*b, n, 1 if init != "multi" else 3, generator=RA.gen(f"v{n}", env.SEED), dtype=torch.float64).to(dt)
    if init == "random":
        v = None
    eps = torch.finfo(dt).eps
    tol = 1e-4 if dt == torch.float64 else 5e-3
    anorm = max(1.0, A64.abs().amax().item() * n ** 0.5)
    subs = []
    for mi in range(1, n + 3):
        f = dict(feat, mi=mi)
        skey = f"{key}|{mi}"
        torch.manual_seed(1000 + mi)
        out = call(lanczos_tridiag, A.matmul, mi, dtype=dt, device=A.device, matrix_shape=A.shape[-2:], batch_shape=torch.Size(b), init_vecs=v)
        nontriv = mi >= 2
        if isinstance(out, Raised):
            subs.append(result(VIOL, kind="internal-error", exc=out.type, msg=f"max_iter={mi}: {out.msg} @ {out.where()}", feat=f, keys=[skey], nontrivial=nontriv))
            continue
        Q, T = out
        nv = 1 if v is None else v.shape[-1]
        exp_lead = (nv,) if nv > 1 else ()
        m = T.shape[-1]
        bad = None
        if tuple(Q.shape[:-2]) != (*exp_lead, *b) or Q.shape[-2] != n or Q.shape[-1] != m or tuple(T.shape) != (*exp_lead, *b, m, m) or m > min(mi, n) or m < 1:
            bad = ("shape", f"Q {tuple(Q.shape)}, T {tuple(T.shape)} for n={n}, max_iter={mi}, {nv} start vectors, batch {b}")
        elif Q.dtype != dt or T.dtype != dt:
            bad = ("dtype", f"Q/T dtype {Q.dtype}/{T.dtype}")
        elif not (torch.isfinite(Q).all() and torch.isfinite(T).all()):
            bad = ("nan", "NaN/Inf in Q or T")
        worst = 0.0
        if bad is None:
            Q64, T64 = Q.double(), T.double()
            G = Q64.mT @ Q64
            # columns are orthonormal, or exactly zero once the Krylov space is exhausted (batched breakdown)
            colnorm = G.diagonal(dim1=-2, dim2=-1)
            live = colnorm > 0.5
            target = torch.diag_embed(live.to(torch.float64))
            d = (G - target).abs().amax().item()
            worst = max(worst, d / tol)
            if d > tol:
                bad = ("orthogonality", f"|Q^T Q - I| = {d:.3g} > {tol:g}")
            if bad is None and not torch.equal(T64, T64.mT):
                bad = ("symmetry", "T is not symmetric")
            if bad is None and m > 2 and torch.triu(T64, 2).abs().amax() > 0:
                bad = ("tridiagonal", "T has entries outside the three diagonals")
            if bad is None:
                # the Lanczos relation Q^T A Q = T is only meaningful on live columns
                # (dead columns of Q are exactly zero, so both sides vanish on their rows and columns: a coefficient left in T
                # next to a dead column is a violation)
                P = (Q64.mT @ A64 @ Q64)
                d = (P - T64).abs().amax().item()
                worst = max(worst, d / (tol * anorm))
                if d > tol * anorm:
                    bad = ("projection", f"|Q^T A Q - T| = {d:.3g} > {tol * anorm:.3g}")
            if bad is None and m >= 2:
                Rm = A64 @ Q64 - Q64 @ T64
                lead = (Rm[..., :, : m - 1] * live[..., None, : m - 1]).abs().amax().item()
                worst = max(worst, lead / (tol * anorm))
                if lead > tol * anorm:
                    bad = ("residual", f"A Q - Q T has {lead:.3g} outside its last column")
            if bad is None and m == n and live.all():
                d = (Q64 @ T64 @ Q64.mT - A64).abs().amax().item()
                worst = max(worst, d / (10 * tol * anorm))
                if d > 10 * tol * anorm:
                    bad = ("reconstruction", f"complete basis but |Q T Q^T - A| = {d:.3g}")
            if bad is None and v is not None:
                # first basis vector is the normalised start vector
                q0 = Q64[..., :, 0]
                vv = v.double()
                vv = vv / vv.norm(dim=-2, keepdim=True)
                vv = vv.movedim(-1, 0) if nv > 1 else vv[..., 0]
                d = (q0 - vv).abs().amax().item()
                if d > 10 * eps:
                    bad = ("start", f"first basis vector differs from the normalised start vector by {d:.3g}")
        if bad:
            subs.append(result(VIOL, kind=bad[0], msg=f"max_iter={mi}: {bad[1]}", feat=f, keys=[skey], nontrivial=nontriv))
        else:
            subs.append(result(OK, feat=f, keys=[skey], nontrivial=nontriv, ratio=worst))
    return result(sub=subs, trans=len(subs) + 1)


def run_consumer(case, feat, key):
    """lanczos-based root / inverse root / diagonalization: orthogonal compression of A onto the space they span"""
    n = case["n"]
    b = tuple(case["b"])
    if case["fam"] == "rankdef":
        A = matrix("rankdef", n, b, env.SEED)
    else:
        A, lam = RA.spd(case["fam"], n, 100.0, 1.0, f"C{case['fam']}{n}", env.SEED, b)
    cdt = DTS[case.get("dt", "f64")]
    op = linear_operator.operators.DenseLinearOperator(A.to(cdt))
    A = A.to(cdt).double()
    size = n if case["budget"] == "full" else max(1, n // 2)
    env.set_settings({"max_root_decomposition_size": size, "max_cholesky_size": 0})
    method = case["method"]
    torch.manual_seed(7)
    if method == "root":
        got = call(lambda: op.root_decomposition(method="lanczos").root.to_dense())
        target = A
    elif method == "root_inv":
        got = call(lambda: op.root_inv_decomposition(method="lanczos").root.to_dense())
        target = torch.linalg.inv(A)
    elif method == "root_inv_vectors":
        # several supplied start vectors: the library runs one Lanczos process per vector and keeps the one that solves the test vectors best
        g = RA.gen(f"civ{n}", env.SEED)
        iv = torch.randn(*b, n, 3, generator=g, dtype=torch.float64).to(cdt)
        tv = torch.randn(*b, n, 2, generator=g, dtype=torch.float64).to(cdt)
        got = call(lambda: op.root_inv_decomposition(initial_vectors=iv, test_vectors=tv, method="lanczos").root.to_dense())
        target = torch.linalg.inv(A)
        method = "root_inv"
    else:
        got = call(lambda: op.diagonalization(method="lanczos"))
        target = A
    if isinstance(got, Raised):
        return result(VIOL, kind="internal-error", exc=got.type, msg=f"{method}: {got.msg} @ {got.where()}", feat=feat, keys=[key])
    if method == "diagonalization":
        evals, evecs = got
        evecs = evecs.to_dense() if hasattr(evecs, "to_dense") else evecs
        if evals.dim() != evecs.dim() - 1 or evals.shape[-1:] != evecs.shape[-1:]:
            return result(VIOL, kind="shape", msg=f"diagonalization: eigenvalues of shape {tuple(evals.shape)} for eigenvectors of shape {tuple(evecs.shape)}", feat=dict(feat, rank1=(size == 1)), keys=[key])
        Rm = evecs * evals.clamp_min(0).sqrt().unsqueeze(-2)
    else:
        Rm = got
    if not torch.isfinite(Rm).all():
        return result(VIOL, kind="nan", msg=f"{method}: NaN/Inf", feat=feat, keys=[key])
    Rm = Rm.double()
    M = Rm @ Rm.mT
    # projector onto span(R)
    U, S, _ = torch.linalg.svd(Rm, full_matrices=False)
    keep = S > 1e-8 * S.amax(-1, keepdim=True)
    Uk = U * keep.unsqueeze(-2)
    Pi = Uk @ Uk.mT
    rank = int(keep.sum(-1).min())
    distinct = case["fam"] not in ("repeated", "rankdef")
    scale = target.abs().amax().item()
    if method == "root_inv":
        # inverse of the compression of A on the subspace: (Pi A Pi)^+
        comp = torch.linalg.pinv(Pi @ A @ Pi, hermitian=True, rtol=1e-10)
    else:
        comp = Pi @ target @ Pi
    tol = (2e-4 if cdt == torch.float64 else 5e-3) * scale * (100.0 if method == "root_inv" else 1.0)
    d = (M - comp).abs().amax().item()
    if d > tol:
        return result(VIOL, kind="compression", msg=f"{method}: R R^T differs from the orthogonal compression onto span(R) by {d:.3g} (tol {tol:.3g}, rank {rank})", feat=feat, keys=[key])
    if case["budget"] == "full" and distinct:
        d2 = (M - target).abs().amax().item()
        if d2 > tol:
            return result(VIOL, kind="value", msg=f"{method}: full budget, distinct eigenvalues, but R R^T differs from the target by {d2:.3g} (rank {rank} of {n})", feat=feat, keys=[key])
    return result(OK, feat=feat, keys=[key], ratio=d / tol)
