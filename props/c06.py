"""C06 - every factorization returned really factorizes the operator."""
import warnings

import torch

from vlib import env, recipes as R
from vlib.core import OK, OOD, UNSUP, VIOL, result
from vlib.oracles import Raised, call, is_explicit_unsupported

ID = "C06"
TITLE = "Every factorization returned really factorizes the operator"
TECHNIQUE = "exhaustive enumeration of (PSD operator term x batch x factorization entry point x method argument x max_cholesky_size x max_root_decomposition_size) on the real factorization code; each result is multiplied out (or compressed onto the span it reports) and compared with the dense matrix"
RULE = (
    "all PD catalogue terms and PD-preserving depth-2 nestings x batch {(),(2,)} x entry points {cholesky(upper), root_decomposition(method), "
    "root_inv_decomposition(method), eigh, eigvalsh, svd, diagonalization(method)} with every value of the method argument each accepts x "
    "max_cholesky_size {0, default} x max_root_decomposition_size {n-1, n (thorough), default}; direct methods: exact reconstruction and "
    "triangularity / orthonormality; Lanczos-based: R R^T equals the orthogonal compression of A (A^-1) onto span(R), and A (A^-1) itself when the "
    "rank bound reaches n (up to the documented tridiagonal jitter); pivoted Cholesky: PSD residual; non-trivial = n >= 2; distinct = (case, query)"
)
ASSUMPTIONS = ["integer PD alphabet: distinct eigenvalues, condition numbers <= ~1e2", "lanczos tolerances include the documented relative tridiagonal jitter (1e-6)"]
CHUNK = 12
CASE_TIMEOUT = 3600
DT = torch.float64

ROOT_METHODS = [None, "cholesky", "symeig", "lanczos", "svd", "pivoted_cholesky", "diagonalization"]
ROOT_INV_METHODS = [None, "cholesky", "symeig", "lanczos", "svd", "diagonalization", "pinverse"]
DIAG_METHODS = [None, "symeig", "lanczos"]


def lattice(tier):
    # max_cholesky_size 2 / 3 / 5 sit between the sizes of Kronecker (block, ...) factors (2, 3) and of their product (6, 9): composite
    # operators then mix the dense path of small components with the structured path of the whole
    base = [{}, {"max_cholesky_size": 0}, {"max_cholesky_size": 3}, {"max_cholesky_size": 5}, {"max_cholesky_size": 2}]
    base += [{"max_cholesky_size": 0, "max_root_decomposition_size": "n-1"}]  # a truncated Lanczos budget
    if tier == "thorough":
        base += [{"max_cholesky_size": 0, "max_root_decomposition_size": "n"},
                 {"fast_root": False}, {"max_cholesky_size": 0, "fast_root": False}]
    return base


def cases(tier, seed):
    out = []
    for name, term, kind in R.pd_terms(tier):
        if kind != "pd":
            continue
        depth1 = "(" not in name
        for b in ([], [2]) + (([1],) if (tier == "thorough" and "(" not in name) else ()):  # a singleton batch dimension (thorough)
            for cfg in lattice(tier):
                if not depth1 and tier == "quick" and b:
                    continue
                out.append({"name": name, "term": term, "batch": b, "cfg": cfg})
    # sizes above every built-in iteration constant (20 Lanczos-quadrature / 15 preconditioner steps) and below the rank bound (100)
    for nm, term in (("DensePSD24", ["Dense", {"n": 24, "m": 24, "kind": "psd"}]), ("AddedDiag24", ["AddedDiag", {}, ["Dense", {"n": 24, "m": 24, "kind": "psd"}], ["Diag", {"n": 24}]])):
        for cfg in ({"max_cholesky_size": 0}, {}):
            out.append({"name": nm, "term": term, "batch": [], "cfg": cfg})
    return out


def bounds(tier):
    return {"n": 3, "terms": sum(1 for t in R.pd_terms(tier) if t[2] == "pd"), "batches": "(),(2,)", "settings_points": len(lattice(tier)),
            "root_methods": [str(m) for m in ROOT_METHODS], "root_inv_methods": [str(m) for m in ROOT_INV_METHODS], "diagonalization_methods": [str(m) for m in DIAG_METHODS]}


def dn(x):
    return x if torch.is_tensor(x) else x.to_dense()


def run(case):
    batch = tuple(case["batch"])
    name = case["name"]
    cfgs = dict(case["cfg"])
    keyp = f"{name}|{batch}|{sorted(case['cfg'].items())}"
    probe = call(R.fresh, case["term"], dtype=DT, batch=batch, seed=env.SEED)
    if isinstance(probe, Raised):
        return result(OOD, feat={"name": name}, keys=[keyp + "|construct"], msg=probe.msg)
    A = probe[0].dense.detach().to(DT)
    n = A.shape[-1]
    mrds = cfgs.get("max_root_decomposition_size")
    if mrds == "n":
        cfgs["max_root_decomposition_size"] = n
    elif mrds == "n-1":
        cfgs["max_root_decomposition_size"] = max(1, n - 1)
    rank_bound = cfgs.get("max_root_decomposition_size", 100)
    Ainv = torch.linalg.inv(A)
    cond = torch.linalg.cond(A).max().item()
    scale = A.abs().amax().item()
    eye = torch.eye(n, dtype=DT)
    heads = R.heads_of(case["term"])
    base = {"name": name, "head": case["term"][0], "nb": len(A.shape) - 2, "cfg": ",".join(f"{k}={v}" for k, v in sorted(case["cfg"].items())),
            "cg_forced": cfgs.get("max_cholesky_size") is not None and cfgs["max_cholesky_size"] < n, "br": "BatchRepeat" in heads, "trunc": rank_bound < n}
    subs = []
    _ev = torch.linalg.eigvalsh(A)
    # "distinct eigenvalues" (needed for the Krylov space of a random start vector to be the whole space)
    distinct = bool(((_ev[..., 1:] - _ev[..., :-1]) > 1e-3 * _ev[..., -1:]).all()) if n > 1 else True
    base["distinct"] = distinct
    tol_direct = 1e-9 * cond * scale * n
    jit = env.settings.tridiagonal_jitter.value()

    def fresh_op():
        env.settings_restore()
        b, _ = R.fresh(case["term"], dtype=DT, batch=batch, seed=env.SEED)
        env.set_settings(dict(cfgs, verbose_linalg=True))
        env.linalg_paths()
        return b.op

    def attempt(q, arg, fn, judge):
        f = dict(base, q=q, arg=str(arg))
        key = f"{keyp}|{q}|{arg}"
        op = fresh_op()
        torch.manual_seed(11)
        with warnings.catch_warnings():
            warnings.simplefilter("ignore")
            got = call(fn, op)
        paths = env.linalg_paths()
        if isinstance(got, Raised):
            if is_explicit_unsupported(got, r".*"):
                subs.append(result(UNSUP, exc=got.type, msg=got.msg, feat=f, keys=[key]))
            else:
                subs.append(result(VIOL, kind="internal-error", exc=got.type, msg=f"{q}({arg}): {got.msg} @ {got.where()}", feat=f, keys=[key]))
            return
        try:
            bad, ratio, extra = judge(got, paths)
        except Exception as e:  # noqa: B902 - using the returned factor failed inside the library
            r = Raised(e)
            subs.append(result(VIOL, kind="internal-error", exc=r.type, msg=f"{q}({arg}) result unusable: {r.msg} @ {r.where()}", feat=f, keys=[key]))
            return
        f = dict(f, **extra)
        if bad:
            subs.append(result(VIOL, kind=bad[0], msg=f"{q}({arg}): {bad[1]} [{sorted(paths)}]", feat=f, keys=[key], ratio=ratio))
        else:
            subs.append(result(OK, feat=f, keys=[key], ratio=ratio))

    # ---- cholesky ---------------------------------------------------------------------------------
    for upper in (False, True):
        def j_chol(got, paths, upper=upper):
            L = dn(got)
            if tuple(L.shape) != tuple(A.shape):
                return ("shape", f"factor shape {tuple(L.shape)}"), None, {}
            tri = torch.triu(L) if upper else torch.tril(L)
            if (L - tri).abs().amax().item() > 0:
                return ("triangular", f"factor is not {'upper' if upper else 'lower'} triangular"), None, {}
            rec = L.mT @ L if upper else L @ L.mT
            d = (rec - A).abs().amax().item()
            return (("value", f"|factor product - A| = {d:.3g}") if d > tol_direct else None), d / tol_direct, {}
        attempt("cholesky", upper, lambda o, upper=upper: o.cholesky(upper=upper), j_chol)

    # ---- roots ------------------------------------------------------------------------------------
    def j_root(target, inverse, method=None):
        def judge(got, paths):
            Rm = dn(got.root)
            if Rm.shape[-2] != n or tuple(Rm.shape[:-2]) != tuple(A.shape[:-2]):
                return ("shape", f"root shape {tuple(Rm.shape)}"), None, {}
            if not torch.isfinite(Rm).all():
                return ("nan", "NaN/Inf in the root"), None, {}
            M = Rm @ Rm.mT
            approx = "Lanczos" in paths or "Pivoted Cholesky" in paths
            if method in ("cholesky", "symeig", "svd"):
                # an explicitly requested direct method is exact, whatever routine it ends up running
                approx = False
            tscale = target.abs().amax().item()
            if not approx:
                tol = 1e-9 * cond * cond * tscale * n if inverse else tol_direct
                d = (M - target).abs().amax().item()
                return (("value", f"|R R^T - {'A^-1' if inverse else 'A'}| = {d:.3g} (direct method)") if d > tol else None), d / tol, {"approx": False}
            if "Pivoted Cholesky" in paths and not inverse:
                E = A - M
                lam = torch.linalg.eigvalsh(0.5 * (E + E.mT)).amin().item()
                tol = 1e-8 * scale * n
                return (("not-psd", f"pivoted-Cholesky root: A - R R^T has eigenvalue {lam:.3g}") if lam < -tol else None), max(-lam, 0) / tol, {"approx": True}
            # Lanczos: orthogonal compression onto span(R); equality with the target at full rank
            U, S, _ = torch.linalg.svd(Rm, full_matrices=False)
            keep = S > 1e-7 * S.amax(-1, keepdim=True)
            Uk = U * keep.unsqueeze(-2)
            Pi = Uk @ Uk.mT
            rank = int(keep.sum(-1).min())
            comp = torch.linalg.pinv(Pi @ A @ Pi, hermitian=True, rtol=1e-9) if inverse else Pi @ A @ Pi
            tol = 20 * jit * cond * (cond if inverse else 1.0) * tscale * n
            d = (M - comp).abs().amax().item()
            if d > tol:
                return ("compression", f"R R^T differs from the orthogonal compression onto span(R) by {d:.3g} (rank {rank})"), d / tol, {"approx": True}
            if rank_bound >= n and distinct:
                d2 = (M - target).abs().amax().item()
                if d2 > tol:
                    return ("value", f"rank bound >= n but R R^T differs from {'A^-1' if inverse else 'A'} by {d2:.3g} (rank {rank})"), d2 / tol, {"approx": True}
            return None, d / tol, {"approx": True}
        return judge
    for m in ROOT_METHODS:
        attempt("root_decomposition", m, lambda o, m=m: o.root_decomposition(method=m), j_root(A, False, m))
    for m in ROOT_INV_METHODS:
        attempt("root_inv_decomposition", m, lambda o, m=m: o.root_inv_decomposition(method=m), j_root(Ainv, True, m))
    # lanczos inverse root with supplied initial / test vectors
    iv = torch.randn(*A.shape[:-2], n, 3, generator=torch.Generator().manual_seed(5), dtype=DT)
    tv = torch.randn(*A.shape[:-2], n, 3, generator=torch.Generator().manual_seed(6), dtype=DT)
    attempt("root_inv_decomposition", "lanczos+vectors", lambda o: o.root_inv_decomposition(initial_vectors=iv, test_vectors=tv, method="lanczos"), j_root(Ainv, True))

    # ---- eigendecompositions ----------------------------------------------------------------------
    ev_ref = torch.linalg.eigvalsh(A)

    def j_eig(got, paths):
        w, Q = got
        Q = dn(Q)
        if w.dim() != Q.dim() - 1 or w.shape[-1] != Q.shape[-1] or Q.shape[-2] != n:
            return ("shape", f"eigenvalues {tuple(w.shape)}, eigenvectors {tuple(Q.shape)}"), None, {}
        approx = "Lanczos" in paths
        k = Q.shape[-1]
        tol_o = 1e-9 * n if not approx else 1e-4
        G = Q.mT @ Q
        target = torch.eye(k, dtype=DT)
        if approx:
            # a Krylov space that is exhausted before the budget (repeated eigenvalues, one member of a batch before the others) leaves
            # exactly-zero columns in the rectangular batch of bases: the remaining columns must be orthonormal
            live = G.diagonal(dim1=-2, dim2=-1) > 0.5
            dead_ok = ((Q.abs().amax(-2) == 0) | live).all()
            target = torch.diag_embed(live.to(DT)) if dead_ok else target
        d = (G - target).abs().amax().item()
        if d > tol_o:
            return ("orthogonality", f"|Q^T Q - I| = {d:.3g}"), d / tol_o, {"approx": approx}
        rec = Q @ torch.diag_embed(w) @ Q.mT
        if not approx:
            d = (rec - A).abs().amax().item()
            bad = ("value", f"|Q diag(w) Q^T - A| = {d:.3g}") if d > tol_direct else None
            if bad is None and k == n:
                d2 = (w.sort(-1).values - ev_ref).abs().amax().item()
                bad = ("value", f"eigenvalues differ from the dense spectrum by {d2:.3g}") if d2 > tol_direct else None
            return bad, d / tol_direct, {"approx": False}
        Pi = Q @ Q.mT
        tol = 20 * jit * cond * scale * n
        d = (rec - Pi @ A @ Pi).abs().amax().item()
        if d > tol:
            return ("compression", f"Q diag(w) Q^T differs from the compression onto span(Q) by {d:.3g}"), d / tol, {"approx": True}
        if rank_bound >= n and k == n and distinct:
            d2 = (rec - A).abs().amax().item()
            if d2 > tol:
                return ("value", f"rank bound >= n but Q diag(w) Q^T differs from A by {d2:.3g}"), d2 / tol, {"approx": True}
        return None, d / tol, {"approx": True}
    attempt("eigh", None, lambda o: o.eigh(), j_eig)
    for m in DIAG_METHODS:
        attempt("diagonalization", m, lambda o, m=m: o.diagonalization(method=m), j_eig)

    def j_eigvals(got, paths):
        if tuple(got.shape) != tuple(ev_ref.shape):
            return ("shape", f"eigvalsh shape {tuple(got.shape)}"), None, {}
        d = (got.sort(-1).values - ev_ref).abs().amax().item()
        return (("value", f"eigvalsh differs from the dense spectrum by {d:.3g}") if d > tol_direct else None), d / tol_direct, {}
    attempt("eigvalsh", None, lambda o: o.eigvalsh(), j_eigvals)

    def j_svd(got, paths):
        U, S, V = got
        U, V = dn(U), dn(V)
        if (S < -1e-12).any():
            return ("value", "negative singular values"), None, {}
        for nm, M in (("U", U), ("V", V)):
            d = (M.mT @ M - torch.eye(M.shape[-1], dtype=DT)).abs().amax().item()
            if d > 1e-9 * n:
                return ("orthogonality", f"|{nm}^T {nm} - I| = {d:.3g}"), None, {}
        d = (U @ torch.diag_embed(S) @ V.mT - A).abs().amax().item()
        return (("value", f"|U diag(S) V^T - A| = {d:.3g}") if d > tol_direct else None), d / tol_direct, {}
    attempt("svd", None, lambda o: o.svd(), j_svd)
    return result(sub=subs, trans=len(subs) + 1)
