"""C20 - utility kernels equal their dense definitions."""
import itertools

import torch

from vlib import env
from vlib.core import OK, OOD, UNSUP, VIOL, result
from vlib.oracles import Raised, call, compare

ID = "C20"
TITLE = "Utility kernels equal their dense definitions"
TECHNIQUE = "full product enumeration (sizes x batch shapes x rhs shapes x dtypes x index/repeat/permutation alphabets) of every public utility kernel on the real code, compared with elementwise dense definitions written in plain torch"
RULE = (
    "for each helper (toeplitz*, sym_toeplitz*, toeplitz quadratic-form derivative, left_interp / left_t_interp, "
    "make_sparse_from_indices_and_values, bdsmm / dsmm (+gradient), sparse_eye / sparse_getitem / sparse_repeat / to_sparse, "
    "apply_permutation / inverse_permutation, stable_qr / stable_pinverse, _matmul_broadcast_shape, _pad_with_singletons): the full "
    "product of n in 1..5, batch shapes incl. broadcasting against the rhs, vector and matrix rhs, float32/float64, and the "
    "helper-specific alphabets; non-trivial = reference not identically zero; distinct = (helper, parameters)"
)
ASSUMPTIONS = ["integer-valued inputs (exact arithmetic except FFT / QR paths, compared at c*eps*scale)",
               "stable_qr / stable_pinverse: exact up to the documented 1e-6 diagonal jitter on (near-)singular R"]
CHUNK = 60
DTS = {"f64": torch.float64, "f32": torch.float32}
BATCHES = [(), (2,), (2, 3), (1,)]

from linear_operator.utils import toeplitz as TZ, interpolation as IP, sparse as SP, permutation as PM  # noqa: E402
from linear_operator.utils.qr import stable_qr  # noqa: E402
from linear_operator.utils.pinverse import stable_pinverse  # noqa: E402
from linear_operator.utils.broadcasting import _matmul_broadcast_shape, _pad_with_singletons  # noqa: E402
import linear_operator  # noqa: E402


def ints(shape, tag, dt, lo=-3, hi=3, nz=True):
    g = torch.Generator()
    g.manual_seed((abs(hash(tag)) + 7919 * env.SEED) % (2**31))
    t = torch.randint(lo, hi + 1, tuple(shape), generator=g).to(dt)
    if nz and t.numel():
        t = t + (t.abs().sum() == 0).to(dt)
    return t


def toep_dense(c, r):
    n = c.shape[-1]
    i = torch.arange(n)[:, None]
    j = torch.arange(n)[None, :]
    lower = c[..., (i - j).clamp_min(0)]
    upper = r[..., (j - i).clamp_min(0)]
    return torch.where(i >= j, lower, upper)


def W_dense(idx, val, ncols):
    W = torch.zeros(*idx.shape[:-1], ncols, dtype=val.dtype)
    return W.scatter_add(-1, idx, val)


def cases(tier, seed):
    out = []
    ns = [1, 2, 3, 5] if tier == "quick" else [1, 2, 3, 4, 5, 8]
    dts = ["f64", "f32"]
    for n in ns:
        for dt in dts:
            out.append({"h": "toeplitz", "n": n, "dt": dt})
            out.append({"h": "toeplitz_getitem", "n": n, "dt": dt})
            for b, rb, rk in itertools.product(BATCHES, BATCHES, ("mat", "vec", "col")):
                out.append({"h": "toeplitz_matmul", "n": n, "dt": dt, "b": list(b), "rb": list(rb), "rk": rk, "sym": False})
                out.append({"h": "toeplitz_matmul", "n": n, "dt": dt, "b": list(b), "rb": list(rb), "rk": rk, "sym": True})
            for b, s in itertools.product(BATCHES, (None, 1, 3)):
                out.append({"h": "toeplitz_deriv", "n": n, "dt": dt, "b": list(b), "s": s})
            for b, rb, rk, k, mode in itertools.product(BATCHES, BATCHES, ("mat", "vec"), (1, 2), ("plain", "dup", "zeros")):
                out.append({"h": "interp", "n": n, "m": n + 1, "k": k, "dt": dt, "b": list(b), "rb": list(rb), "rk": rk, "mode": mode})
            for b, k, mode in itertools.product(BATCHES, (1, 2), ("plain", "dup", "zeros", "somezero")):
                out.append({"h": "make_sparse", "n": n, "m": n + 1, "k": k, "dt": dt, "b": list(b), "mode": mode})
            for b, rb in itertools.product(BATCHES, BATCHES):
                out.append({"h": "bdsmm", "n": n, "m": n + 1, "dt": dt, "b": list(b), "rb": list(rb), "grad": False})
                out.append({"h": "bdsmm", "n": n, "m": n + 1, "dt": dt, "b": list(b), "rb": list(rb), "grad": True})
            out.append({"h": "sparse_eye", "n": n, "dt": dt})
            out.append({"h": "to_sparse", "n": n, "dt": dt, "empty": False})
            out.append({"h": "to_sparse", "n": n, "dt": dt, "empty": True})
            for idx in (["i", 0], ["i", n - 1], ["s", 0, n], ["s", 1, n], ["s", 0, 1], ["ii", 0, n - 1], ["is", 0, 0, n], ["si", 0, n, 0], ["ss", 0, n, 1, n + 1]):
                out.append({"h": "sparse_getitem", "n": n, "dt": dt, "idx": idx, "empty_hit": False})
                out.append({"h": "sparse_getitem", "n": n, "dt": dt, "idx": idx, "empty_hit": True})
            for shape, rep in ((1, [2]), (1, [3]), (2, [2, 1]), (2, [1, 2]), (2, [2, 3]), (2, [2, 1, 1]), (3, [2, 1, 1]), (3, [1, 2, 1]), (3, [1, 1, 2]), (3, [2, 2, 2]), (2, [1, 1]), (3, [3, 1, 2, 1])):
                out.append({"h": "sparse_repeat", "n": n, "dt": dt, "nd": shape, "rep": rep})
            for b, pb, lk, rk2 in itertools.product([(), (2,), (2, 3)], ["same", "none", "one"], ("full", "partial", None), ("full", "partial", None)):
                for target in ("tensor", "operator"):
                    out.append({"h": "apply_permutation", "n": n, "dt": dt, "b": list(b), "pb": pb, "left": lk, "right": rk2, "target": target})
            for b in BATCHES:
                out.append({"h": "inverse_permutation", "n": n, "b": list(b)})
            for b, shape_kind, rank in itertools.product([(), (2,)], ("tall", "square", "fat"), ("full", "deficient", "near")):
                out.append({"h": "qr", "n": n, "dt": dt, "b": list(b), "shape": shape_kind, "rank": rank})
                out.append({"h": "pinverse", "n": n, "dt": dt, "b": list(b), "shape": shape_kind, "rank": rank})
    for a, b2 in itertools.product([(3, 4), (2, 3, 4), (1, 3, 4), (2, 1, 3, 4)], [(4,), (4, 2), (2, 4, 2), (1, 4, 2), (3, 1, 4, 2), (5, 2), (3, 4, 2)]):
        out.append({"h": "broadcast_shape", "a": list(a), "b": list(b2)})
    for shp, nb, na in itertools.product([(3,), (2, 3)], (0, 1, 2), (0, 1, 3)):
        out.append({"h": "pad", "shape": list(shp), "nb": nb, "na": na})
    return out


def bounds(tier):
    return {"n": "1,2,3,5 (quick) / 1..5,8 (thorough)", "batches": [str(b) for b in BATCHES], "dtypes": ["float32", "float64"]}


def judge(name, got, ref, feat, key, tol=300, inner=1):
    if isinstance(ref, Raised):
        return result(OOD, feat=feat, keys=[key], msg=ref.msg)
    if isinstance(got, Raised):
        return result(VIOL, kind="internal-error", exc=got.type, msg=f"{name}: {got.msg} @ {got.where()}", feat=feat, keys=[key])
    if not torch.is_tensor(got):
        got = torch.as_tensor(got)
    if got.is_sparse:
        got = got.to_dense()
    if not torch.is_tensor(ref):
        ref = torch.as_tensor(ref)
    bad, ratio = compare(got, ref.to(got.dtype) if got.is_floating_point() else ref, inner=inner, what=name, c=tol, exact=(tol == 0 or not got.is_floating_point()))
    nontriv = bool(ref.numel() and ref.abs().sum() > 0)
    if bad:
        return result(VIOL, kind=bad[0], msg=bad[1], feat=feat, keys=[key], nontrivial=nontriv, ratio=ratio)
    return result(OK, feat=feat, keys=[key], nontrivial=nontriv, ratio=ratio)


def run(case):
    h = case["h"]
    feat = {k: (str(v) if isinstance(v, list) else v) for k, v in case.items()}
    key = repr(sorted(case.items()))
    dt = DTS.get(case.get("dt", "f64"))
    n = case.get("n")
    if h == "toeplitz":
        c, r = ints((n,), "c", dt), ints((n,), "r", dt)
        r[0] = c[0]
        res = [judge("toeplitz", call(TZ.toeplitz, c, r), toep_dense(c, r), dict(feat, v="gen"), key + "g", tol=0),
               judge("sym_toeplitz", call(TZ.sym_toeplitz, c), toep_dense(c, c), dict(feat, v="sym"), key + "s", tol=0)]
        return result(sub=res, trans=2)
    if h == "toeplitz_getitem":
        c, r = ints((n,), "c", dt), ints((n,), "r", dt)
        r[0] = c[0]
        D = toep_dense(c, r)
        Ds = toep_dense(c, c)
        got = call(lambda: torch.stack([torch.stack([TZ.toeplitz_getitem(c, r, i, j) for j in range(n)]) for i in range(n)]))
        gots = call(lambda: torch.stack([torch.stack([TZ.sym_toeplitz_getitem(c, i, j) for j in range(n)]) for i in range(n)]))
        return result(sub=[judge("toeplitz_getitem", got, D, dict(feat, v="gen"), key + "g", tol=0), judge("sym_toeplitz_getitem", gots, Ds, dict(feat, v="sym"), key + "s", tol=0)], trans=2 * n * n)
    if h == "toeplitz_matmul":
        b, rb = tuple(case["b"]), tuple(case["rb"])
        c = ints((*b, n), "c", dt)
        r = c.clone() if case["sym"] else ints((*b, n), "r", dt)
        r[..., 0] = c[..., 0]
        shp = {"mat": (*rb, n, 2), "vec": (n,), "col": (*rb, n, 1)}[case["rk"]]
        if case["rk"] == "vec" and rb:
            return result(OOD, feat=feat, keys=[key])
        X = ints(shp, "x", dt)
        ref = call(lambda: torch.matmul(toep_dense(c, r), X))
        fn = (lambda: TZ.sym_toeplitz_matmul(c, X)) if case["sym"] else (lambda: TZ.toeplitz_matmul(c, r, X))
        return judge("toeplitz_matmul", call(fn), ref, feat, key, tol=2000, inner=n)
    if h == "toeplitz_deriv":
        b = tuple(case["b"])
        s = case["s"]
        if s is None and b:
            return result(OOD, feat=feat, keys=[key])
        shape = (n,) if s is None else (*b, n, s)
        u, v = ints(shape, "u", dt), ints(shape, "v", dt)

        def ref():
            c = torch.zeros(*b, n, dtype=torch.float64, requires_grad=True)
            T = toep_dense(c, c)
            uu = u.to(torch.float64) if s is not None else u.to(torch.float64).unsqueeze(-1)
            vv = v.to(torch.float64) if s is not None else v.to(torch.float64).unsqueeze(-1)
            q = (uu * (T @ vv)).sum()
            return torch.autograd.grad(q, c)[0].to(dt)
        return judge("sym_toeplitz_derivative_quadratic_form", call(TZ.sym_toeplitz_derivative_quadratic_form, u, v), call(ref), feat, key, tol=2000, inner=n)
    if h in ("interp", "make_sparse"):
        b = tuple(case["b"])
        m, k = case["m"], case["k"]
        g = torch.Generator()
        g.manual_seed(5 + n + k)
        idx = torch.randint(0, n, (*b, m, k), generator=g)
        val = ints((*b, m, k), "w", dt)
        mode = case["mode"]
        if mode == "dup" and k > 1:
            idx[..., 1] = idx[..., 0]
        if mode == "zeros":
            val = torch.zeros_like(val)
        if mode == "somezero":
            val[..., 0, :] = 0
        W = W_dense(idx, val, n)  # (.., m, n)
        if h == "make_sparse":
            got = call(lambda: SP.make_sparse_from_indices_and_values(idx, val, n).to_dense())
            return judge("make_sparse_from_indices_and_values", got, W.mT, feat, key, tol=0)
        rb = tuple(case["rb"])
        if case["rk"] == "vec":
            if rb or b:
                return result(OOD, feat=feat, keys=[key])
            X, Xt = ints((n,), "x", dt), ints((m,), "xt", dt)
        else:
            X, Xt = ints((*rb, n, 2), "x", dt), ints((*rb, m, 2), "xt", dt)
        res = [judge("left_interp", call(IP.left_interp, idx, val, X), call(lambda: torch.matmul(W, X)), dict(feat, v="W x"), key + "l", tol=50, inner=n),
               judge("left_t_interp", call(IP.left_t_interp, idx, val, Xt, n), call(lambda: torch.matmul(W.mT, Xt)), dict(feat, v="W^T x"), key + "t", tol=50, inner=m)]
        return result(sub=res, trans=2)
    if h == "bdsmm":
        b, rb = tuple(case["b"]), tuple(case["rb"])
        m = case["m"]
        S = ints((*b, m, n), "s", dt) * (ints((*b, m, n), "mask", dt, 0, 1, nz=False))
        S.view(-1)[0] = 2
        Dm = ints((*rb, n, 2), "d", dt)
        sp = S.to_sparse()
        ref = call(lambda: torch.matmul(S, Dm))
        if not case["grad"]:
            res = [judge("bdsmm", call(SP.bdsmm, sp, Dm), ref, dict(feat, v="bdsmm"), key + "b", tol=50, inner=n),
                   judge("dsmm", call(linear_operator.dsmm, sp, Dm), ref, dict(feat, v="dsmm"), key + "d", tol=50, inner=n)]
            return result(sub=res, trans=2)
        Dg = Dm.clone().requires_grad_(True)
        Dr = Dm.clone().requires_grad_(True)
        wts = ints(ref.shape if not isinstance(ref, Raised) else (1,), "wts", dt)

        def impl():
            out = linear_operator.dsmm(sp, Dg)
            return torch.autograd.grad((out * wts).sum(), Dg)[0]

        def refg():
            return torch.autograd.grad((torch.matmul(S, Dr) * wts).sum(), Dr)[0]
        return judge("dsmm gradient", call(impl), call(refg), feat, key, tol=50, inner=m)
    if h == "sparse_eye":
        return judge("sparse_eye", call(lambda: SP.sparse_eye(n).to_dense()), torch.eye(n), feat, key, tol=0)
    if h == "to_sparse":
        Dm = torch.zeros(n, n + 1, dtype=dt) if case["empty"] else ints((n, n + 1), "d", dt) * ints((n, n + 1), "mask", dt, 0, 1, nz=False)
        return judge("to_sparse", call(lambda: SP.to_sparse(Dm).to_dense()), Dm, feat, key, tol=0)
    if h == "sparse_getitem":
        Dm = ints((n, n + 1), "d", dt) * ints((n, n + 1), "mask", dt, 0, 1, nz=False)
        Dm[0, 0] = 3
        e = case["idx"]
        idx = {"i": lambda: (e[1],), "s": lambda: (slice(e[1], e[2]),), "ii": lambda: (e[1], e[2]), "is": lambda: (e[1], slice(e[2], e[3])),
               "si": lambda: (slice(e[1], e[2]), e[3]), "ss": lambda: (slice(e[1], e[2]), slice(e[3], e[4]))}[e[0]]()
        if case["empty_hit"]:  # make the selected region empty
            Dm[idx] = 0
        sp = SP.to_sparse(Dm) if Dm.abs().sum() > 0 else None
        if sp is None:
            return result(OOD, feat=feat, keys=[key])
        ref = call(lambda: Dm[idx])
        if not isinstance(ref, Raised) and ref.numel() == 0:
            return result(OOD, feat=feat, keys=[key])
        got = call(SP.sparse_getitem, sp, idx if len(idx) > 1 else idx[0])
        return judge("sparse_getitem", got, ref, feat, key, tol=0)
    if h == "sparse_repeat":
        nd = case["nd"]
        shape = {1: (n,), 2: (n, 2), 3: (2, n, 2)}[nd]
        Dm = ints(shape, "d", dt) * ints(shape, "mask", dt, 0, 1, nz=False)
        Dm.view(-1)[0] = 2
        sp = Dm.to_sparse()
        rep = case["rep"]
        ref = call(lambda: Dm.repeat(*rep))
        return judge("sparse_repeat", call(lambda: SP.sparse_repeat(sp, *rep).to_dense()), ref, feat, key, tol=0)
    if h == "apply_permutation":
        b = tuple(case["b"])
        K = ints((*b, n, n), "K", dt) + torch.arange(n * n, dtype=dt).reshape(n, n)
        pb = {"same": b, "none": (), "one": (1,) * len(b)}[case["pb"]]
        g = torch.Generator()
        g.manual_seed(11 + n)

        def perm(kind):
            if kind is None:
                return None
            size = n if kind == "full" else max(1, n - 1)
            flat = [torch.randperm(n, generator=g)[:size] for _ in range(max(1, int(torch.Size(pb).numel())))]
            return torch.stack(flat).reshape(*pb, size) if pb else flat[0]
        lp, rp = perm(case["left"]), perm(case["right"])

        def ref():
            out = K
            if lp is not None:
                li = lp.expand(*b, lp.shape[-1]) if b else lp
                out = torch.gather(out, -2, li.unsqueeze(-1).expand(*b, li.shape[-1], out.shape[-1]))
            if rp is not None:
                ri = rp.expand(*b, rp.shape[-1]) if b else rp
                out = torch.gather(out, -1, ri.unsqueeze(-2).expand(*b, out.shape[-2], ri.shape[-1]))
            return out
        target = K if case["target"] == "tensor" else linear_operator.operators.DenseLinearOperator(K)
        return judge("apply_permutation", call(PM.apply_permutation, target, lp, rp), call(ref), feat, key, tol=0)
    if h == "inverse_permutation":
        b = tuple(case["b"])
        g = torch.Generator()
        g.manual_seed(3 + n)
        p = torch.stack([torch.randperm(n, generator=g) for _ in range(max(1, int(torch.Size(b).numel())))]).reshape(*b, n)
        got = call(PM.inverse_permutation, p)
        if isinstance(got, Raised):
            return judge("inverse_permutation", got, p, feat, key)
        comp = torch.gather(p, -1, got)  # p[inv] == arange
        return judge("inverse_permutation", comp, torch.arange(n).expand(*b, n), feat, key, tol=0)
    if h in ("qr", "pinverse"):
        b = tuple(case["b"])
        rows, cols = {"tall": (n + 2, n), "square": (n, n), "fat": (n, n + 2)}[case["shape"]]
        A = ints((*b, rows, cols), "A", dt)
        if case["rank"] in ("deficient", "near") and min(rows, cols) >= 2:
            A[..., :, -1] = A[..., :, 0]
            A[..., -1, :] = A[..., 0, :]
            if case["rank"] == "near":
                A = A + 1e-4 * ints((*b, rows, cols), "pert", dt)
        elif case["rank"] != "full":
            return result(OOD, feat=feat, keys=[key])
        eps_tol = 1e5
        if h == "qr":
            got = call(stable_qr, A)
            if isinstance(got, Raised):
                return judge("stable_qr", got, A, feat, key)
            Q, Rm = got
            k = min(rows, cols)
            subs = [judge("stable_qr Q^T Q", Q.mT @ Q, torch.eye(Q.shape[-1], dtype=dt).expand(*b, Q.shape[-1], Q.shape[-1]), dict(feat, v="orth"), key + "o", tol=eps_tol, inner=rows)]
            # Q R = A up to the documented 1e-6 jitter on the diagonal of R
            rec = Q @ Rm
            err = (rec - A).abs().max().item()
            allowed = 2e-6 * max(1.0, Q.abs().max().item()) + 1e4 * torch.finfo(dt).eps * max(1.0, A.abs().max().item()) * rows
            tri_ok = torch.equal(Rm, torch.triu(Rm))
            if err > allowed or not tri_ok:
                subs.append(result(VIOL, kind="value", msg=f"stable_qr: |QR-A| = {err:.3g} > {allowed:.3g} or R not upper triangular ({tri_ok})", feat=dict(feat, v="rec"), keys=[key + "r"]))
            else:
                subs.append(result(OK, feat=dict(feat, v="rec"), keys=[key + "r"], ratio=err / allowed))
            return result(sub=subs, trans=2)
        if case["rank"] != "full":
            # pseudo-inverse of a (near-)singular matrix is only defined up to the jitter: check A P A ~ A loosely is not meaningful
            got = call(stable_pinverse, A)
            if isinstance(got, Raised):
                return judge("stable_pinverse", got, A, feat, key)
            bad = not torch.isfinite(got).all() or tuple(got.shape) != (*b, cols, rows)
            return result(VIOL, kind="nan", msg="stable_pinverse: non-finite / wrong shape on a rank-deficient input", feat=feat, keys=[key]) if bad else result(OK, feat=feat, keys=[key], nontrivial=False)
        ref = call(lambda: torch.linalg.pinv(A.to(torch.float64)).to(dt))
        if not isinstance(ref, Raised):
            # only well-conditioned cases are exact
            sv = torch.linalg.svdvals(A.to(torch.float64))
            if (sv.min(-1).values < 1e-3 * sv.max(-1).values).any():
                return result(OOD, feat=feat, keys=[key])
        return judge("stable_pinverse", call(stable_pinverse, A), ref, feat, key, tol=1e6, inner=rows)
    if h == "broadcast_shape":
        a, b2 = tuple(case["a"]), tuple(case["b"])
        ref = call(lambda: torch.Size(torch.matmul(torch.zeros(a), torch.zeros(b2)).shape))
        got = call(_matmul_broadcast_shape, torch.Size(a), torch.Size(b2))
        if isinstance(ref, Raised):
            return result(OK, feat=feat, keys=[key]) if isinstance(got, Raised) else result(VIOL, kind="no-error", msg=f"_matmul_broadcast_shape{a, b2} returned {got}, torch.matmul raises", feat=feat, keys=[key])
        if isinstance(got, Raised) or tuple(got) != tuple(ref):
            return result(VIOL, kind="shape", msg=f"_matmul_broadcast_shape{a, b2} = {got}, torch gives {tuple(ref)}", feat=feat, keys=[key])
        return result(OK, feat=feat, keys=[key])
    if h == "pad":
        t = torch.arange(float(torch.Size(case["shape"]).numel())).reshape(case["shape"])
        got = call(_pad_with_singletons, t, case["nb"], case["na"])
        ref = t.reshape((1,) * case["nb"] + tuple(case["shape"]) + (1,) * case["na"])
        return judge("_pad_with_singletons", got, ref, feat, key, tol=0)
    raise ValueError(h)
