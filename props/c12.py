"""C12 - cached results are transparent: answers do not depend on query history."""
import hashlib
import pickle
import types
import warnings

import torch

from vlib import env, recipes as R
from vlib.core import OK, OOD, UNSUP, VIOL, result
from vlib.oracles import Raised, call, is_explicit_unsupported
from props.c18 import NoisePatch

ID = "C12"
TITLE = "Cached results are transparent: answers do not depend on query history"
TECHNIQUE = (
    "explicit-state breadth-first search over query histories on the real operator objects: a state is the history reaching it, rebuilt on a fresh object "
    "and replayed; states are merged on an exact fingerprint of the whole object graph (every _memoize_cache entry, every ad-hoc cache attribute, nested "
    "operators, settings point); on every transition the answer of the history object is compared with the same query on a freshly constructed copy and "
    "with the dense reference model; caches transplanted onto derived operators are multiplied out against the derived dense matrix, and after every transition on a derived operator so are the "
    "caches of every operator of its derivation chain (a query on a child must not corrupt what its ancestors have cached)"
)
RULE = (
    "initial states: all PD catalogue terms (depth-1; thorough adds PD depth-2 nestings at smaller depth) x batch {(),(2,)}; alphabet: to_dense, diagonal, matmul, "
    "cholesky(upper in {F,T}), root_decomposition(method), root_inv_decomposition(method), diagonalization(method), svd, eigh, eigvalsh, solve, logdet, "
    "inv_quad_logdet, inv_quad, _preconditioner, zero_mean_mvn_samples (identified as a linear map), settings flips between queries (max_cholesky_size 0/default, "
    "fast root decomposition, fast log_prob, fast solves, preconditioning on/off) and derivations (add_jitter, add_diagonal, add_low_rank with and without roots, "
    "cat_rows with and without inverse roots, leading and non-leading principal-submatrix index, mT, *2, expand) after which the search continues on the child; all histories up to the "
    "depth bound, successors of already-seen fingerprints pruned; non-trivial = the history before the query is non-empty; distinct = (case, fingerprint, query)"
)
ASSUMPTIONS = [
    "cg_tolerance, minres_tolerance fixed at 1e-10 for the whole exploration so that iterative answers are determined up to a small tolerance",
    "the torch RNG is re-seeded identically before each query on the history object and on the fresh copy",
    "Lanczos-based answers are compared up to the documented tridiagonal jitter and only when the eigenvalues are distinct",
    "a freshly constructed copy of a derived operator is child.clone() taken right after the derivation (checked faithful against the dense model, else the "
    "transition is out of domain here and belongs to C14)",
]
CHUNK = 1
CASE_TIMEOUT = 20000  # (a depth-3 exploration of one initial state takes ~10 min on an idle machine; never let machine load turn into a verdict)
DT = torch.float64
BASE = {"cg_tolerance": 1e-10, "minres_tolerance": 1e-10, "verbose_linalg": True}

ROOT_M = [None, "cholesky", "symeig", "lanczos", "svd", "pivoted_cholesky", "diagonalization"]
RINV_M = [None, "cholesky", "symeig", "lanczos", "svd", "pinverse", "diagonalization"]
DIAG_M = [None, "symeig", "lanczos"]

FLIPS = {
    "flip:mcs": ("max_cholesky_size", 0),
    "flip:fastroot": ("fast_root", False),
    "flip:logprob": ("fast_log_prob", False),
    "flip:solves": ("fast_solves", False),
    "flip:precond": ("min_preconditioning_size", 0),
    "flip:mcs3": ("max_cholesky_size", 3),  # between component size (2, 3) and operator size (6, 9); wins over flip:mcs when both are on
}
DERIVS = ["d:add_jitter", "d:add_diagonal", "d:add_low_rank", "d:add_low_rank2", "d:add_low_rank_noroots", "d:cat_rows", "d:cat_rows2", "d:cat_rows_noinv", "d:index", "d:index_tail", "d:mT", "d:mul2", "d:expand"]


def alphabet(tier):
    q = ["to_dense", "diagonal", "matmul", "chol:F", "chol:T"]
    q += [f"root:{m}" for m in (ROOT_M if tier == "thorough" else ROOT_M[:4] + ["diagonalization"])]
    q += [f"rinv:{m}" for m in (RINV_M if tier == "thorough" else RINV_M[:4] + ["diagonalization"])]
    q += [f"diag:{m}" for m in DIAG_M]
    q += ["svd", "eigh", "eigvalsh", "solve", "logdet", "iql", "inv_quad", "precond", "sample"]
    # the same query under two values of a setting it reads (the harness sets and restores it around the call): a memo keyed by the
    # arguments alone would serve the first answer again
    q += ["pivchol:tight", "pivchol:loose"]
    flips = list(FLIPS) if tier == "thorough" else ["flip:mcs", "flip:fastroot"]
    return q, flips, list(DERIVS)


def cases(tier, seed):
    out = []
    for name, term, kind in R.pd_terms(tier):
        if kind != "pd":
            continue
        depth1 = "(" not in name
        if not depth1 and tier == "quick":
            continue
        for b in ([], [2]):
            if not depth1 and b:
                continue
            if tier == "quick":
                depth = 2
            else:
                depth = 3 if depth1 else 2
            out.append({"name": name, "term": term, "batch": b, "depth": depth, "tier": tier})
    return out


def bounds(tier):
    q, f, d = alphabet(tier)
    return {"n": 3, "initial_states": len(cases(tier, 0)), "queries": q, "settings_flips": f, "derivations": d,
            "history_depth": {"quick": 2, "thorough": "3 (depth-1 terms), 2 (nestings)"}[tier], "max_derivations_per_history": 1 if tier == "quick" else 2}


# ------------------------------------------------------------------------------------------------
# exact fingerprint of the reachable object graph
# ------------------------------------------------------------------------------------------------
def _fp(x, h, seen):
    if torch.is_tensor(x):
        t = x.detach()
        if t.is_sparse:
            t = t.to_dense()
        h.update(b"T" + str(tuple(t.shape)).encode() + str(t.dtype).encode())
        h.update(t.contiguous().cpu().numpy().tobytes())
    elif isinstance(x, (str, int, float, bool, type(None), bytes, torch.Size, torch.dtype)):
        h.update(repr(x).encode())
    elif isinstance(x, (list, tuple)):
        h.update(b"[")
        for v in x:
            _fp(v, h, seen)
        h.update(b"]")
    elif isinstance(x, dict):
        h.update(b"{")
        items = []
        for k, v in x.items():
            hk = hashlib.sha1()
            _fp(k, hk, set(seen))
            items.append((hk.hexdigest(), v))
        for hk, v in sorted(items, key=lambda kv: kv[0]):
            h.update(hk.encode())
            _fp(v, h, seen)
        h.update(b"}")
    elif isinstance(x, (types.FunctionType, types.MethodType, types.BuiltinFunctionType)) or isinstance(x, type):
        h.update(getattr(x, "__qualname__", repr(type(x))).encode())
    elif hasattr(x, "__dict__"):
        if id(x) in seen:
            h.update(b"<cycle>")
            return
        seen.add(id(x))
        h.update(type(x).__name__.encode())
        _fp({k: v for k, v in vars(x).items()}, h, seen)
    else:
        h.update(type(x).__name__.encode())


def fingerprint(op, sp):
    h = hashlib.sha1()
    _fp(op, h, set())
    h.update(repr(tuple(sp)).encode())
    return h.hexdigest()[:20]


# ------------------------------------------------------------------------------------------------
def dn(x):
    return x if torch.is_tensor(x) else x.to_dense()


def rhs_for(M):
    n = M.shape[-1]
    g = torch.Generator().manual_seed(7)
    return torch.randint(-3, 4, (*M.shape[:-2], n, 2), generator=g).to(DT)


def observe(op, q, M):
    """runs query q on op; returns dict name -> tensor (semantic observables) and flags"""
    n = M.shape[-1]
    obs, flags = {}, {}
    kind, _, arg = q.partition(":")
    arg = None if arg == "None" else arg
    if q == "to_dense":
        obs["dense"] = op.to_dense()
    elif q == "diagonal":
        obs["diag"] = op.diagonal()
    elif q == "matmul":
        obs["mm"] = op @ rhs_for(M)
    elif kind == "chol":
        L = op.cholesky(upper=(arg == "T"))
        obs["chol"] = dn(L)
    elif kind == "root":
        r = op.root_decomposition(method=arg)
        obs["prod"] = r.to_dense()
    elif kind == "rinv":
        r = op.root_inv_decomposition(method=arg)
        obs["iprod"] = r.to_dense()
    elif kind == "diag":
        e, V = op.diagonalization(method=arg)
        V = dn(V)
        obs["recon"] = (V * e.unsqueeze(-2)) @ V.mT
        if V.shape[-1] == n:
            obs["evals"] = e.sort(dim=-1).values
    elif q == "svd":
        U, S, V = op.svd()
        U, V = dn(U), dn(V)
        obs["recon"] = (U * S.unsqueeze(-2)) @ V.mT
        obs["svals"] = S.sort(dim=-1).values
    elif q == "eigh":
        e, V = op.eigh()
        flags["evecs_none"] = V is None
        obs["evals"] = e.sort(dim=-1).values
        if V is not None:
            V = dn(V)
            obs["recon"] = (V * e.unsqueeze(-2)) @ V.mT
    elif q == "eigvalsh":
        e = op.eigvalsh()
        flags["is_tensor"] = torch.is_tensor(e)
        obs["evals"] = (e if torch.is_tensor(e) else e[0]).sort(dim=-1).values
    elif q == "solve":
        obs["solve"] = op.solve(rhs_for(M))
    elif q == "logdet":
        obs["logdet"] = op.logdet()
    elif q == "iql":
        a, b = op.inv_quad_logdet(rhs_for(M), logdet=True)
        obs["inv_quad"], obs["logdet"] = a, b
    elif q == "inv_quad":
        obs["inv_quad"] = op.inv_quad(rhs_for(M))
    elif q == "precond":
        cl, plt, ld = op._preconditioner()
        flags["has_precond"] = cl is not None
        if cl is not None:
            obs["precond_apply"] = cl(rhs_for(M))
            if ld is not None:
                obs["precond_logdet"] = ld
            if plt is not None:
                obs["precond_dense"] = dn(plt)
    elif kind == "pivchol":
        saved = env.settings.preconditioner_tolerance.value()
        env.set_settings({"preconditioner_tolerance": 1e-8 if arg == "tight" else 0.5})
        try:
            L = op.pivoted_cholesky(rank=n)
        finally:
            env.set_settings({"preconditioner_tolerance": saved})
        L = dn(L)
        obs["pc_prod"] = L @ L.mT
        flags["pc_rank"] = int(L.shape[-1])
    elif q == "sample":
        with NoisePatch("record") as p0:
            out0 = op.zero_mean_mvn_samples(1)
        Dn = p0.offset
        flags["zero_noise_zero"] = bool(out0.abs().max().item() == 0)
        rows = []
        for i in range(Dn):
            with NoisePatch("onehot", hot=i):
                rows.append(op.zero_mean_mvn_samples(1).reshape(-1))
        F = torch.stack(rows)
        nb = max(1, int(torch.Size(M.shape[:-2]).numel()))
        C = (F.mT @ F).reshape(nb, n, nb, n)
        obs["cov"] = torch.stack([C[i, :, i, :] for i in range(nb)]).reshape(*M.shape)
        off = C.clone()
        for i in range(nb):
            off[i, :, i, :] = 0
        obs["cross_cov"] = off
    else:
        raise KeyError(q)
    return obs, flags


def truth(q, M):
    kind, _, arg = q.partition(":")
    out = {}
    inv = torch.linalg.inv(M)
    B = rhs_for(M)
    if q == "to_dense":
        out["dense"] = M
    elif q == "diagonal":
        out["diag"] = M.diagonal(dim1=-2, dim2=-1)
    elif q == "matmul":
        out["mm"] = M @ B
    elif kind == "chol":
        L = torch.linalg.cholesky(M)
        out["chol"] = L.mT if arg == "T" else L
    elif kind == "root":
        out["prod"] = M
    elif kind == "rinv":
        out["iprod"] = inv
    elif kind == "diag" or q in ("eigh", "eigvalsh"):
        out["recon"] = M
        out["evals"] = torch.linalg.eigvalsh(M)
    elif q == "svd":
        out["recon"] = M
        out["svals"] = torch.linalg.svdvals(M).sort(dim=-1).values
    elif q == "solve":
        out["solve"] = inv @ B
    elif q in ("logdet", "iql", "inv_quad"):
        out["logdet"] = torch.logdet(M)
        out["inv_quad"] = (B * (inv @ B)).sum((-2, -1))
    elif q == "sample":
        out["cov"] = M
        nb = max(1, int(torch.Size(M.shape[:-2]).numel()))
        out["cross_cov"] = torch.zeros(nb, M.shape[-1], nb, M.shape[-1], dtype=DT)
    return out


def derive(op, M, d):
    """returns (child, child dense model)"""
    n = M.shape[-1]
    bs = M.shape[:-2]
    if d == "d:add_jitter":
        return op.add_jitter(0.5), M + 0.5 * torch.eye(n, dtype=DT)
    if d == "d:add_diagonal":
        dg = torch.arange(1, n + 1, dtype=DT)
        return op.add_diagonal(dg), M + torch.diag_embed(dg)
    if d == "d:add_low_rank2":  # two columns
        v = torch.stack([torch.arange(1, n + 1, dtype=DT), torch.ones(n, dtype=DT) * torch.tensor([1.0, -1.0] * n)[:n]], -1).expand(*bs, n, 2).contiguous()
        return op.add_low_rank(v), M + v @ v.mT
    if d == "d:cat_rows2":  # two new rows: the Schur complement has a triangular (Cholesky) root of its own
        cross = torch.ones(*bs, 2, n, dtype=DT) * 0.5
        cross[..., 0, 0] = 1.0
        cross[..., 1, -1] = -1.0
        new = torch.eye(2, dtype=DT).expand(*bs, 2, 2) * (M.diagonal(dim1=-2, dim2=-1).sum(-1) + 5.0).reshape(*bs, 1, 1) + 0.5
        child = op.cat_rows(cross, new.contiguous())
        top = torch.cat([M, cross.mT], dim=-1)
        bot = torch.cat([cross, new], dim=-1)
        return child, torch.cat([top, bot], dim=-2)
    if d in ("d:add_low_rank", "d:add_low_rank_noroots"):
        v = torch.arange(1, n + 1, dtype=DT).unsqueeze(-1).expand(*bs, n, 1).contiguous()
        child = op.add_low_rank(v, generate_roots=(d == "d:add_low_rank"))
        return child, M + v @ v.mT
    if d in ("d:cat_rows", "d:cat_rows_noinv"):
        cross = torch.ones(*bs, 1, n, dtype=DT) * 0.5
        cross[..., 0, 0] = 1.0
        new = (M.diagonal(dim1=-2, dim2=-1).sum(-1) + 5.0).reshape(*bs, 1, 1).clone()
        child = op.cat_rows(cross, new, generate_inv_roots=(d == "d:cat_rows"))
        top = torch.cat([M, cross.mT], dim=-1)
        bot = torch.cat([cross, new], dim=-1)
        return child, torch.cat([top, bot], dim=-2)
    if d == "d:index":
        return op[..., : n - 1, : n - 1], M[..., : n - 1, : n - 1]
    if d == "d:index_tail":  # a principal block that does not start at row 0
        return op[..., 1:, 1:], M[..., 1:, 1:]
    if d == "d:mT":
        return op.mT, M.mT
    if d == "d:mul2":
        return op * 2.0, M * 2.0
    if d == "d:expand":
        return op.expand(2, *op.shape), M.expand(2, *M.shape)
    raise KeyError(d)


CACHE_NAMES = ("cholesky", "root_decomposition", "root_inv_decomposition", "svd", "diagonalization")


def cache_checks(child, Mc, tol, tol_inv):
    """multiplies out every factorization sitting in the operator's cache: yields (cache key, name, args, kwargs, ok, message)"""
    cache = getattr(child, "_memoize_cache", None) or {}
    for key, val in list(cache.items()):
        name = key[0] if isinstance(key, tuple) else key
        if not isinstance(name, str) or name not in CACHE_NAMES:
            continue
        args = key[1] if isinstance(key, tuple) else ()
        kw = pickle.loads(key[2]) if isinstance(key, tuple) and len(key) > 2 else {}
        try:
            if name == "cholesky":
                F = dn(val)
                upper = bool(kw.get("upper", args[0] if args else False))
                prod = F.mT @ F if upper else F @ F.mT
                d = (prod - Mc).abs().max().item()
                ok = d <= tol
            elif name == "root_decomposition":
                d = (val.to_dense() - Mc).abs().max().item()
                ok = d <= tol
            elif name == "root_inv_decomposition":
                d = (val.to_dense() - torch.linalg.inv(Mc)).abs().max().item()
                ok = d <= tol_inv
            elif name == "svd":
                U, S, V = val
                d = ((dn(U) * S.unsqueeze(-2)) @ dn(V).mT - Mc).abs().max().item()
                ok = d <= tol
            else:
                e, V = val
                V = dn(V)
                d = ((V * e.unsqueeze(-2)) @ V.mT - Mc).abs().max().item()
                ok = d <= tol
        except Exception as e:  # noqa: B902
            yield key, name, args, kw, False, f"cached {name}{args}{kw}: cannot be multiplied out ({type(e).__name__}: {str(e)[:80]})"
            continue
        yield key, name, args, kw, ok, (None if ok else f"cached {name}{args}{kw} is off by {d:.3g}")


def check_transplants(child, Mc, tol, tol_inv):
    """every factorization sitting in the child's cache right after a derivation must factorize the child's matrix"""
    return [msg.replace(" is off by", " carried over to the derived operator is off by") for _, _, _, _, ok, msg in cache_checks(child, Mc, tol, tol_inv) if not ok]


def tols_for(Ma, base):
    na = Ma.shape[-1]
    eva = torch.linalg.eigvalsh(Ma)
    conda = (eva[..., -1] / eva[..., 0].clamp_min(1e-300)).max().item()
    scalea = max(1.0, Ma.abs().amax().item())
    pda = bool((eva[..., 0] > 1e-6 * eva[..., -1]).all())
    return base * conda * scalea * na, (base * conda * na * 10 * max(1.0, 1.0 / eva.min().item()) if pda else float("inf"))


def ancestor_cache_findings(watch, before, base, lanc):
    """after a step on a derived operator: every factorization cached on an ancestor must still (or, if new, at all) factorize the ancestor's
    matrix, unless a fresh copy of the ancestor computes an invalid one by itself (that is C06's business) or a Lanczos-type method met a
    repeated / vanishing eigenvalue of the ancestor (a compression onto the Krylov space by design, as everywhere else in this check)"""
    viol, ood = [], []
    for (opa, Ma), bad_before in zip(watch, before):
        tol, tol_inv = tols_for(Ma, base)
        eva = torch.linalg.eigvalsh(Ma)
        na = Ma.shape[-1]
        distinct_a = bool(((eva[..., 1:] - eva[..., :-1]) > 1e-3 * eva[..., -1:]).all()) if na > 1 else True
        pd_a = bool((eva[..., 0] > 1e-6 * eva[..., -1]).all())
        for key, name, args, kw, ok, msg in cache_checks(opa, Ma, tol, tol_inv):
            if ok or key in bad_before:
                continue
            if lanc and not (distinct_a and pd_a):
                ood.append(f"{type(opa).__name__}: {msg} (Lanczos-type factor of a matrix with repeated eigenvalues)")
                continue
            fresh = call(lambda: getattr(opa.clone(), name))
            own = call(lambda: fresh(*args, **kw)) if not isinstance(fresh, Raised) else fresh
            own_bad = True
            if not isinstance(own, Raised):
                own_bad = any((not ok2) for key2, _, _, _, ok2, _ in cache_checks(fresh.__self__, Ma, tol, tol_inv) if key2 == key)
            (ood if own_bad else viol).append(f"{type(opa).__name__}: {msg}")
    return viol, ood


class Explorer:
    def __init__(self, case):
        self.case = case
        self.batch = tuple(case["batch"])
        self.term = case["term"]
        self.q, self.flips, self.derivs = alphabet(case["tier"])
        self.max_derivs = 1 if case["tier"] == "quick" else 2
        self.refmemo = {}

    def fresh(self):
        env.settings_restore()
        b, _ = R.fresh(self.term, dtype=DT, batch=self.batch, seed=env.SEED)
        env.set_settings(BASE)
        return b.op, b.dense.detach().to(DT)

    def apply_settings(self, sp):
        env.settings_restore()
        env.set_settings(BASE)
        env.set_settings({FLIPS[f][0]: FLIPS[f][1] for f in sorted(sp, key=lambda f: (f == "flip:mcs3", f))})

    def step(self, op, M, sp, a):
        """applies action a; returns (op', M', sp', observation or None)"""
        if a in FLIPS:
            sp2 = tuple(sorted(set(sp) ^ {a}))
            self.apply_settings(sp2)
            return op, M, sp2, None
        torch.manual_seed(4242)
        with warnings.catch_warnings():
            warnings.simplefilter("ignore")
            if a.startswith("d:"):
                child, Mc = derive(op, M, a)
                return child, Mc, sp, None
            obs = observe(op, a, M)
        return op, M, sp, obs

    def build(self, hist):
        """fresh real object, history replayed; returns (op, M, sp, last_deriv_index)"""
        op, M = self.fresh()
        sp = ()
        self.chain = [M]  # the matrices of the derivation chain: caches of the ancestors live on inside derived operators
        self.anc = []  # the ancestor objects themselves
        for a in hist:
            if a.startswith("d:"):
                self.anc.append((op, M))
            op, M, sp, _ = self.step(op, M, sp, a)
            if a.startswith("d:"):
                self.chain.append(M)
        return op, M, sp

    def reference(self, hist, sp, q):
        """the same query on a freshly constructed copy of the object the history ends on"""
        last = max((i for i, a in enumerate(hist) if a.startswith("d:")), default=-1)
        prefix = tuple(hist[: last + 1])
        key = (prefix, sp, q)
        if key not in self.refmemo:
            faithful = True
            if last < 0:
                op, M = self.fresh()
            else:
                child, M, _ = self.build(prefix)
                self.apply_settings(sp)
                with warnings.catch_warnings():
                    warnings.simplefilter("ignore")
                    dd = call(lambda: child.clone().to_dense())
                    faithful = (not isinstance(dd, Raised)) and tuple(dd.shape) == tuple(M.shape) and (dd - M).abs().max().item() <= 1e-8 * max(1.0, M.abs().max().item())
                    op = child.clone() if faithful else child
            self.apply_settings(sp)
            env.linalg_paths()
            torch.manual_seed(4242)
            with warnings.catch_warnings():
                warnings.simplefilter("ignore")
                out = call(observe, op, q, M)
            self.refmemo[key] = (out, env.linalg_paths(), faithful)
        return self.refmemo[key]


def dist(a, b):
    if tuple(a.shape) != tuple(b.shape):
        try:
            a, b = torch.broadcast_tensors(a, b)
        except RuntimeError:
            return float("inf")
    if a.numel() == 0:
        return 0.0
    d = (a.detach().to(DT) - b.detach().to(DT)).abs()
    if not torch.isfinite(d).all():
        return float("inf")
    return d.max().item()


def run(case):
    ex = Explorer(case)
    name = case["name"]
    batch = tuple(case["batch"])
    probe = call(ex.fresh)
    if isinstance(probe, Raised):
        return result(OOD, feat={"name": name}, msg=probe.msg)
    op0, M0 = probe
    heads = R.heads_of(case["term"])
    base_feat = {"name": name, "head": case["term"][0], "nb": len(M0.shape) - 2, "br": "BatchRepeat" in heads}
    keyp = f"{name}|{batch}"
    seen = {fingerprint(op0, ())}
    frontier = [()]
    subs = []
    states = set(seen)
    trans = 0
    jitter = env.settings.tridiagonal_jitter.value()
    for level in range(case["depth"]):
        nxt = []
        for hist in frontier:
            nder = sum(1 for a in hist if a.startswith("d:"))
            acts = list(ex.q) + list(ex.flips) + (ex.derivs if nder < ex.max_derivs else [])
            for a in acts:
                env.linalg_paths()
                built = call(ex.build, hist)
                if isinstance(built, Raised):
                    break  # the history itself raised on replay (recorded when it was first taken)
                op, M, sp = built
                if a in ("d:index", "d:index_tail") and M.shape[-1] < 2:
                    continue
                hist_paths = env.linalg_paths()
                fp_before = fingerprint(op, sp)
                watch = [] if a in FLIPS else [w for w in list(ex.anc) + ([(op, M)] if a.startswith("d:") else []) if w[1].shape[-1] == w[1].shape[-2]]
                base_h = 20 * jitter if ({"Lanczos", "CG"} & hist_paths) else 1e-9
                anc_before = [{k for k, _, _, _, ok_, _ in cache_checks(w[0], w[1], *tols_for(w[1], base_h)) if not ok_} for w in watch]
                out = call(ex.step, op, M, sp, a)
                trans += len(hist) + 1
                q_paths = env.linalg_paths()
                feat = dict(base_feat, hist=">".join(hist), q=a, sp=",".join(sp), depth=len(hist))
                key = f"{keyp}|{fp_before}|{a}"
                n = M.shape[-1]
                ev = torch.linalg.eigvalsh(M)
                distinct = bool(((ev[..., 1:] - ev[..., :-1]) > 1e-3 * ev[..., -1:]).all()) if n > 1 else True
                for Mc_ in ex.chain[:-1]:  # (a Lanczos factor cached on an ancestor with a repeated eigenvalue is a compression by design)
                    if Mc_.shape[-1] == Mc_.shape[-2] and Mc_.shape[-1] > 1:
                        evc = torch.linalg.eigvalsh(Mc_)
                        distinct = distinct and bool(((evc[..., 1:] - evc[..., :-1]) > 1e-3 * evc[..., -1:]).all())
                pd_ok = bool((ev[..., 0] > 1e-6 * ev[..., -1]).all())
                cond = (ev[..., -1] / ev[..., 0].clamp_min(1e-300)).max().item()
                scale = max(1.0, M.abs().amax().item())
                if isinstance(out, Raised):
                    if a in FLIPS:
                        raise out.exc
                    if a.startswith("d:"):
                        if is_explicit_unsupported(out, r".*"):
                            subs.append(result(UNSUP, exc=out.type, msg=out.msg, feat=feat, keys=[key], nontrivial=False))
                            continue
                        # a derivation that raises only after some history is a history dependence; one that always raises is not C12's
                        ref_raise = call(lambda: ex.step(*ex.build(tuple(x for x in hist if not (x in ex.q))), a))
                        if isinstance(ref_raise, Raised):
                            subs.append(result(OOD, exc=out.type, msg="derivation raises without history as well: " + out.msg, feat=feat, keys=[key], nontrivial=False))
                        else:
                            subs.append(result(VIOL, kind="history-raise", exc=out.type, msg=f"{a} raises only after the history: {out.msg} @ {out.where()}", feat=feat, keys=[key]))
                        continue
                    ref, ref_paths, faithful = ex.reference(hist, sp, a)
                    if not faithful:
                        subs.append(result(OOD, msg="fresh copy (clone) of the derived operator is not faithful (C14)", feat=feat, keys=[key], nontrivial=False))
                    elif isinstance(ref, Raised):
                        v = UNSUP if is_explicit_unsupported(ref, r".*") else OOD
                        subs.append(result(v, exc=ref.type, msg="fresh copy raises as well: " + ref.msg, feat=feat, keys=[key], nontrivial=False))
                    else:
                        subs.append(result(VIOL, kind="history-raise", exc=out.type, msg=f"raises only after the history: {out.msg} @ {out.where()}", feat=feat, keys=[key]))
                    continue
                op2, M2, sp2, obs = out
                if watch and not (a.startswith("d:") and op2 is op):
                    lanc_a = bool({"Lanczos", "CG", "MINRES", "Pivoted Cholesky"} & (hist_paths | q_paths))
                    base_a = 20 * jitter if lanc_a else 1e-9
                    av, ao = ancestor_cache_findings(watch, anc_before, base_a, lanc_a)
                    if av:
                        subs.append(result(VIOL, kind="ancestor-cache", msg=f"after {a} on the derived operator a factorization cached on an operator it was derived from no longer "
                                           "factorizes that operator: " + "; ".join(av)[:300], feat=feat, keys=[key + "|anc"]))
                    elif ao:
                        subs.append(result(OOD, msg="an ancestor's own factorization is invalid (C06): " + "; ".join(ao)[:200], feat=feat, keys=[key + "|anc"], nontrivial=False))
                    else:
                        subs.append(result(OK, feat=feat, keys=[key + "|anc"], nontrivial=any(getattr(w[0], "_memoize_cache", None) for w in watch)))
                fp_after = fingerprint(op2, sp2)
                states.add(fp_after)
                extend = fp_after not in seen
                if a in FLIPS:
                    subs.append(result(OK, feat=feat, keys=[key], nontrivial=False))
                elif a.startswith("d:"):
                    ev2 = torch.linalg.eigvalsh(M2) if M2.shape[-1] == M2.shape[-2] else None
                    cond2 = (ev2[..., -1] / ev2[..., 0].clamp_min(1e-300)).max().item()
                    scale2 = max(1.0, M2.abs().amax().item())
                    lanc = bool({"Lanczos", "CG"} & (hist_paths | q_paths))
                    base = 20 * jitter if lanc else 1e-9
                    tol = base * cond2 * scale2 * n
                    tol_inv = base * cond2 * n * 10 * max(1.0, 1.0 / ev2.min().item())
                    bad = check_transplants(op2, M2, tol, tol_inv)
                    if bad:
                        extend = False  # every later answer of this child would repeat the same finding
                    tolp = base * cond * scale * n
                    if bad and lanc and not (distinct and pd_ok):
                        subs.append(result(OOD, msg="Lanczos-type factors of a matrix with repeated eigenvalues", feat=feat, keys=[key], nontrivial=False))
                    elif bad and op2 is not op and check_transplants(op, M, tolp, base * cond * n * 10 * max(1.0, 1.0 / ev.min().item())):
                        subs.append(result(OOD, msg="the parent's own cached factorization is wrong (C06): " + "; ".join(bad)[:200], feat=feat, keys=[key], nontrivial=False))
                    elif bad and op2 is op:
                        subs.append(result(OOD, msg="the derivation returned the operator itself; its cached factorization is wrong (C06): " + "; ".join(bad)[:200], feat=feat, keys=[key], nontrivial=False))
                    elif bad:
                        subs.append(result(VIOL, kind="transplant", msg="; ".join(bad)[:380], feat=feat, keys=[key]))
                    else:
                        subs.append(result(OK, feat=feat, keys=[key], nontrivial=bool(getattr(op2, "_memoize_cache", None))))
                else:
                    ref, ref_paths, faithful = ex.reference(hist, sp, a)
                    obs, flags = obs
                    allp = hist_paths | q_paths | ref_paths
                    lanc = bool({"Lanczos", "CG", "MINRES", "Pivoted Cholesky"} & allp) or a.endswith("pivoted_cholesky")
                    if not faithful:
                        subs.append(result(OOD, msg="fresh copy (clone) of the derived operator is not faithful (C14)", feat=feat, keys=[key], nontrivial=False))
                    elif isinstance(ref, Raised):
                        v = UNSUP if is_explicit_unsupported(ref, r".*") else OOD
                        # the history object answered where a fresh one refuses: compare the answer with the truth
                        tr = truth(a, M)
                        off = [k for k in obs if k in tr and dist(obs[k], tr[k]) > 1e-6 * scale * cond]
                        if off and pd_ok:
                            subs.append(result(VIOL, kind="history-value", msg=f"fresh copy raises {ref.type}; history object answers with wrong {off}", feat=feat, keys=[key]))
                        else:
                            subs.append(result(v, exc=ref.type, msg="fresh copy raises: " + ref.msg, feat=feat, keys=[key], nontrivial=False))
                    elif lanc and (not distinct or not pd_ok):
                        subs.append(result(OOD, msg="Lanczos-type method on a matrix with repeated eigenvalues", feat=feat, keys=[key], nontrivial=False))
                    else:
                        robs, rflags = ref
                        tr = truth(a, M)
                        base = 20 * jitter if lanc else 1e-9
                        tol = base * cond * scale * n
                        worst, bad = 0.0, None
                        for k in robs:
                            if k in tr:
                                tk0 = base * cond * n * 10 * max(1.0, 1.0 / ev.min().item()) if k in ("iprod", "solve", "inv_quad") else tol * (n if k == "logdet" else 1)
                                if k == "logdet" and lanc:
                                    continue  # stochastic estimate: not comparable with the truth
                                d_ft = dist(robs[k], tr[k])
                                if d_ft > tk0:
                                    bad = ("reference-wrong", f"{k}: the fresh copy's answer is itself off the dense truth by {d_ft:.3g}")
                                    break
                        if not bad and flags != rflags:
                            bad = ("history-type", f"answer differs in kind from the fresh copy's: {flags} vs {rflags}")
                        for k in obs:
                            if bad:
                                break
                            if k not in robs:
                                bad = ("history-type", f"observable {k} missing from the fresh copy's answer")
                                break
                            tk = tol
                            if k in ("iprod", "solve", "inv_quad"):
                                tk = base * cond * n * 10 * max(1.0, 1.0 / ev.min().item())
                            if k in ("logdet", "precond_logdet"):
                                tk = tol * n
                            d_hf = dist(obs[k], robs[k])
                            worst = max(worst, d_hf / tk)
                            if d_hf <= tk:
                                continue
                            if k in tr:
                                d_ht, d_ft = dist(obs[k], tr[k]), dist(robs[k], tr[k])
                                tt = tk if k not in ("logdet",) or not lanc else 1e-7 * scale * n
                                if d_ht <= tt:
                                    if d_ft <= tt:
                                        continue
                                    bad = ("reference-wrong", f"{k}: fresh copy is off the dense truth by {d_ft:.3g}, the history object is not ({d_ht:.3g})")
                                    break
                                if d_ft > tt:
                                    bad = ("reference-wrong", f"{k}: the fresh copy's answer is itself off the dense truth by {d_ft:.3g} (history object: {d_ht:.3g})")
                                    break
                                bad = ("history-value", f"{k}: differs from the fresh copy's answer by {d_hf:.3g} (tol {tk:.3g}); off the truth by {d_ht:.3g} (fresh copy: {d_ft:.3g}); paths {sorted(allp)}")
                            else:
                                bad = ("history-value", f"{k}: differs from the fresh copy's answer by {d_hf:.3g} (tol {tk:.3g}); paths {sorted(allp)}")
                            break
                        if bad and bad[0] == "reference-wrong":
                            subs.append(result(OOD, msg=bad[1] + " (a defect of the factorization itself: C06)", feat=feat, keys=[key], nontrivial=False))
                        elif bad:
                            subs.append(result(VIOL, kind=bad[0], msg=bad[1], feat=feat, keys=[key], ratio=worst))
                        else:
                            subs.append(result(OK, feat=feat, keys=[key], ratio=worst, nontrivial=len(hist) > 0))
                if extend and level + 1 < case["depth"]:
                    seen.add(fp_after)
                    nxt.append(hist + (a,))
        frontier = nxt
    env.settings_restore()
    return result(OK, feat=base_feat, keys=[f"{keyp}|{s}" for s in states], trans=trans, sub=subs)
