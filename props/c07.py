"""C07 - gradients through operators equal gradients through the dense computation."""
import itertools
import warnings

import torch

from vlib import env, recipes as R
from vlib.core import OK, OOD, UNSUP, VIOL, result
from vlib.oracles import Raised, call, is_explicit_unsupported

ID = "C07"
TITLE = "Gradients through operators equal gradients through the dense computation"
TECHNIQUE = "exhaustive enumeration of (operator term x batch x every non-empty subset of floating leaves requiring grad x differentiable entry point x memory_efficient x max_cholesky_size) on the real backward code; each gradient is compared with torch.autograd through the dense denotation assembled from the same leaves"
RULE = (
    "every catalogue term with floating leaves and wrapper-over-term nestings x batch {(),(2,); depth-1 terms also (3,2)} x all 2^p - 1 subsets of leaves (p <= 4, larger p: singletons + all) x "
    "entry points {matmul, rmatmul, to_dense, diagonal, getitem, batch sum, solve, inv_quad, logdet, inv_quad_logdet, root_decomposition, pivoted_cholesky, "
    "sqrt_inv_matmul, _bilinear_derivative} x memory_efficient {on, off} x max_cholesky_size {0 (CG solves, cg_tolerance 1e-10), default}; gradients w.r.t. the "
    "leaves and the right-hand side; symmetrised comparison for symmetric-only functions; non-trivial = reference gradient non-zero; distinct = (case, entry, subset)"
)
ASSUMPTIONS = ["float64, integer leaf values perturbed to generic reals; tolerance 1e-7 relative for direct paths, 1e-5 for CG / Lanczos / contour-integral paths",
               "the stochastic log-determinant gradient (probe variance) is not compared; logdet gradients are checked on the deterministic paths"]
CHUNK = 6
CASE_TIMEOUT = 3600
DT = torch.float64

SKIP_HEADS = {"Zero", "Identity", "Perm", "TransposePerm"}


def terms(tier):
    cat = R.catalogue(3)
    out = [(k, v) for k, v in cat.items() if not (set(R.heads_of(v)) & SKIP_HEADS)]
    wrappers = ["ConstMul", "BlockDiag", "SumBatch", "BatchRepeat", "Interp", "AddedDiag", "MatmulLeft", "KronLeft", "MulPSD", "Root", "CatRows", "MaskedSym", "BlockInterleaved"]
    if tier == "quick":
        inner = ["Dense", "DensePSD", "Diag", "Toeplitz", "Kron", "Interp", "ConstMul", "KernelRBF", "Root"]
        nest = R.nestings(3, wrappers=wrappers, inner_names=inner)
    else:
        nest = R.nestings(3, wrappers=wrappers)
    out += [(k, v) for k, v in nest.items() if not (set(R.heads_of(v)) & SKIP_HEADS)]
    return out


def cases(tier, seed):
    out = []
    for name, term in terms(tier):
        depth1 = "(" not in name
        for b in ([], [2]):
            if not depth1 and tier == "quick" and b:
                continue
            for cfg in ({}, {"memory_efficient": True}, {"max_cholesky_size": 0, "cg_tolerance": 1e-10}):
                if not depth1 and cfg.get("max_cholesky_size") == 0 and tier == "quick":
                    continue
                out.append({"name": name, "term": term, "batch": b, "cfg": cfg})
        if depth1:
            # two batch dimensions of distinct sizes (gradients of operands that broadcast over only some of them)
            for cfg in ({},) if tier == "quick" else ({}, {"memory_efficient": True}):
                out.append({"name": name, "term": term, "batch": [3, 2], "cfg": cfg})
    return out


def bounds(tier):
    return {"n": 3, "terms": len(terms(tier)), "batches": "(),(2,); depth-1 terms also (3,2)", "subsets": "all non-empty subsets for <= 4 floating leaves, singletons + full set otherwise",
            "settings": ["default", "memory_efficient", "max_cholesky_size=0 with cg_tolerance 1e-10"]}


def _w(shape, tag):
    g = torch.Generator()
    g.manual_seed(abs(hash(tag)) % (2**31))
    return torch.randn(tuple(shape), generator=g, dtype=DT)


def mat_fun(A, p):
    w, V = torch.linalg.eigh(A)
    return (V * w.pow(p).unsqueeze(-2)) @ V.mT


def float_leaves(ctx):
    return [k for k, v in ctx.leaves.items() if torch.is_tensor(v) and v.is_floating_point()]


def run(case):
    batch = tuple(case["batch"])
    name = case["name"]
    cfgs = case["cfg"]
    keyp = f"{name}|{batch}|{sorted(cfgs.items())}"
    probe = call(R.fresh, case["term"], dtype=DT, batch=batch, seed=env.SEED, values="real")
    if isinstance(probe, Raised):
        return result(OOD, feat={"name": name}, keys=[keyp + "|construct"], msg=probe.msg)
    b0, ctx0 = probe
    names = float_leaves(ctx0)
    dense0 = b0.dense.detach()
    r, c = dense0.shape[-2:]
    opb = tuple(dense0.shape[:-2])
    square = r == c
    pd = bool(b0.pd) and square
    heads = R.heads_of(case["term"])
    base = {"name": name, "head": case["term"][0], "nb": len(opb), "cfg": ",".join(f"{a}={v}" for a, v in sorted(cfgs.items())), "cg_forced": cfgs.get("max_cholesky_size") == 0,
            "br": "BatchRepeat" in heads, "br_rect": R.has_rect_batch_repeat(case["term"])}
    if len(names) <= 4:
        subsets = [list(s) for k in range(1, len(names) + 1) for s in itertools.combinations(names, k)]
    else:
        subsets = [[n_] for n_ in names] + [names]
    X = _w((*opb, c, 2), "X")
    Xl = _w((*opb, 2, r), "Xl")
    W2 = _w((*opb, r, 2), "W2")
    Wd = _w(dense0.shape, "Wd")
    entries = []
    entries.append(("matmul", lambda o, x: o @ x, lambda d, x: d @ x, X, 1e-7))
    entries.append(("rmatmul", lambda o, x: x.mT @ o, lambda d, x: x.mT @ d, Xl.mT.contiguous(), 1e-7))
    entries.append(("to_dense", lambda o, x: o.to_dense(), lambda d, x: d, None, 1e-7))
    entries.append(("getitem", lambda o, x: o[..., 1:, :2].to_dense() if hasattr(o[..., 1:, :2], "to_dense") else o[..., 1:, :2], lambda d, x: d[..., 1:, :2], None, 1e-7))
    entries.append(("getrow", lambda o, x: o[..., 0, :], lambda d, x: d[..., 0, :], None, 1e-7))
    if square:
        entries.append(("diagonal", lambda o, x: o.diagonal(), lambda d, x: d.diagonal(dim1=-2, dim2=-1), None, 1e-7))
    if opb:
        entries.append(("sum0", lambda o, x: o.sum(0).to_dense() if hasattr(o.sum(0), "to_dense") else o.sum(0), lambda d, x: d.sum(0), None, 1e-7))
    if pd:
        it = 1e-5 if cfgs.get("max_cholesky_size") == 0 else 1e-7
        entries.append(("solve", lambda o, x: o.solve(x), lambda d, x: torch.linalg.solve(d, x), X, it))
        entries.append(("inv_quad", lambda o, x: o.inv_quad(x), lambda d, x: (x * torch.linalg.solve(d, x)).sum((-2, -1)), X, it))
        if cfgs.get("max_cholesky_size") != 0:
            entries.append(("logdet", lambda o, x: o.logdet(), lambda d, x: torch.logdet(d), None, 1e-7))
            entries.append(("inv_quad_logdet", lambda o, x: sum(t.sum() for t in o.inv_quad_logdet(x, logdet=True)), lambda d, x: (x * torch.linalg.solve(d, x)).sum() + torch.logdet(d).sum(), X, 1e-7))
            entries.append(("root_decomposition", lambda o, x: o.root_decomposition().to_dense(), lambda d, x: d, None, 1e-6))
            entries.append(("pivoted_cholesky", lambda o, x: (lambda L: L @ L.mT)(o.pivoted_cholesky(rank=r, error_tol=1e-14)), lambda d, x: d, None, 1e-6))
            entries.append(("sqrt_inv_matmul", lambda o, x: o.sqrt_inv_matmul(x), lambda d, x: mat_fun(d, -0.5) @ x, X, 1e-4))
    if pd:
        # eigen / singular decompositions as differentiable functions: a generic (non-trace) function of the eigenvectors, so that the
        # eigenvector term of the backward pass matters; only meaningful for distinct eigenvalues
        evd = torch.linalg.eigvalsh(dense0)
        if bool(((evd[..., 1:] - evd[..., :-1]) > 0.02 * evd[..., -1:]).all()):
            lz = cfgs.get("max_cholesky_size") == 0
            dtol = 1e-4 if lz else 1e-6

            def _rec(e, V, p):
                V = V if torch.is_tensor(V) else V.to_dense()
                return (V * e.clamp_min(0).pow(p).unsqueeze(-2)) @ V.mT
            entries.append(("diagonalization", lambda o, x: _rec(*o.diagonalization(), 0.5), lambda d, x: mat_fun(d, 0.5), None, dtol))
            if not lz:
                entries.append(("eigh", lambda o, x: _rec(*o.eigh(), 0.5), lambda d, x: mat_fun(d, 0.5), None, 1e-6))
                entries.append(("eigvalsh", lambda o, x: o.eigvalsh().sort(-1).values, lambda d, x: torch.linalg.eigvalsh(d), None, 1e-6))
                entries.append(("svd", lambda o, x: (lambda U, S, V: ((U if torch.is_tensor(U) else U.to_dense()) * S.pow(0.5).unsqueeze(-2)) @ (V if torch.is_tensor(V) else V.to_dense()).mT)(*o.svd()),
                                lambda d, x: mat_fun(d, 0.5), None, 1e-6))
        entries.append(("solve_left", lambda o, x, l: o.solve(x, l), lambda d, x, l: l @ torch.linalg.solve(d, x), X, it, Xl))
        if cfgs.get("max_cholesky_size") != 0:
            entries.append(("sqrt_inv_matmul_left", lambda o, x, l: (lambda t: t[0].sum() + t[1].sum())(o.sqrt_inv_matmul(x, l)),
                            lambda d, x, l: (l @ mat_fun(d, -0.5) @ x).sum() + (l * (l @ torch.linalg.inv(d))).sum(), X, 1e-4, Xl))
    entries = [e if len(e) == 6 else (*e, None) for e in entries]
    subs = []
    # Mul goes through root decompositions of its operands, and kernel operators transpose by swapping their inputs
    # (k(x1,x2)^T = k(x2,x1)): both are functions of the symmetric part of a symmetric parameter only
    sym_all = bool({"Mul", "Kernel"} & set(heads))
    sym_entries = {"diagonalization", "eigh", "eigvalsh", "svd", "solve", "solve_left", "inv_quad", "logdet", "inv_quad_logdet", "root_decomposition", "pivoted_cholesky", "sqrt_inv_matmul", "sqrt_inv_matmul_left"}

    def grads(which, fn_impl, fn_dense, xin, subset, settings_cfg, lin=None, argpat=(True, True)):
        env.settings_restore()
        b, ctx = R.fresh(case["term"], dtype=DT, batch=batch, seed=env.SEED, values="real", grad=set(subset))
        leaves = [ctx.leaves[n_] for n_ in subset]
        x = None if xin is None else xin.clone().requires_grad_(bool(argpat[0]))
        l = None if lin is None else lin.clone().requires_grad_(bool(argpat[1]))
        args = (x,) if lin is None else (x, l)
        if which == "impl":
            env.set_settings(dict(settings_cfg, minres_tolerance=1e-12, num_contour_quadrature=25) if True else settings_cfg)
            with warnings.catch_warnings():
                warnings.simplefilter("ignore")
                out = fn_impl(b.op, *args)
        else:
            out = fn_dense(b.dense, *args)
        out = out if torch.is_tensor(out) else out.to_dense()
        Wt = _w(out.shape, "Wout")
        s = (out * Wt).sum()
        ins = leaves + [t for t in (x, l) if t is not None and t.requires_grad]
        if not s.requires_grad:  # the result does not depend on any of the chosen leaves
            return [torch.zeros_like(t) for t in ins], ins
        gs = torch.autograd.grad(s, ins, allow_unused=True)
        return [torch.zeros_like(t) if g is None else g for g, t in zip(gs, ins)], ins

    full = list(names)
    for ename, fi, fd, xin, tol, lin in entries:
        # which of the caller's argument tensors require grad is part of the subset lattice: every pattern of (rhs, lhs) with no leaf and
        # with all leaves requiring grad, and the all-arguments pattern with every leaf subset
        plan = [(subset, (True, True)) for subset in subsets]
        if xin is not None:
            pats = [(True, False), (False, True), (False, False)] if lin is not None else [(False, False)]
            plan += [(full, p) for p in pats]
            plan += [([], p) for p in ([(True, True), (True, False), (False, True)] if lin is not None else [(True, True)])]
        for subset, argpat in plan:
            pat = "" if argpat == (True, True) else f"|args:{'x' if argpat[0] else ''}{'l' if argpat[1] and lin is not None else ''}"
            f = dict(base, entry=ename, subset="+".join(s.split(":")[0].split(".", 1)[-1] if "." in s else s for s in subset) + pat, nsub=len(subset))
            key = f"{keyp}|{ename}|{subset}{pat}"
            ref = call(grads, "ref", fi, fd, xin, subset, cfgs, lin, argpat)
            if isinstance(ref, Raised):
                subs.append(result(OOD, feat=f, keys=[key], msg=ref.msg))
                continue
            got = call(grads, "impl", fi, fd, xin, subset, cfgs, lin, argpat)
            if isinstance(got, Raised):
                if is_explicit_unsupported(got, r".*"):
                    subs.append(result(UNSUP, exc=got.type, msg=got.msg, feat=f, keys=[key]))
                else:
                    subs.append(result(VIOL, kind="internal-error", exc=got.type, msg=f"{ename} grad wrt {subset}: {got.msg} @ {got.where()}", feat=f, keys=[key]))
                continue
            (gi, ins), (gr, _) = got, ref
            bad = None
            worst = 0.0
            nontriv = False
            labels = list(subset) + (["rhs"] if xin is not None and argpat[0] else []) + (["lhs"] if lin is not None and argpat[1] else [])
            for lab, a, bb, t in zip(labels, gi, gr, ins):
                if tuple(a.shape) != tuple(bb.shape):
                    bad = ("shape", f"gradient wrt {lab} has shape {tuple(a.shape)} != {tuple(bb.shape)}")
                    break
                if (ename in sym_entries or sym_all) and a.dim() >= 2 and a.shape[-1] == a.shape[-2] and lab != "rhs" and ":psd" in lab:
                    a, bb = 0.5 * (a + a.mT), 0.5 * (bb + bb.mT)
                if lab.endswith(":tril") or lab.endswith(":triu"):
                    # a triangular factor is only ever read on its triangle
                    msk = torch.tril(torch.ones_like(a)) if lab.endswith(":tril") else torch.triu(torch.ones_like(a))
                    a, bb = a * msk, bb * msk
                scale = max(1.0, bb.abs().max().item())
                d = (a - bb).abs().max().item()
                if bb.abs().max().item() > 0:
                    nontriv = True
                worst = max(worst, d / (tol * scale))
                if not torch.isfinite(a).all() or d > tol * scale:
                    bad = ("gradient", f"d/d[{lab}] differs from the dense-autograd gradient by {d:.3g} (scale {scale:.3g}, tol {tol * scale:.3g})")
                    break
            if bad:
                subs.append(result(VIOL, kind=bad[0], msg=f"{ename} (requires_grad on {subset}): {bad[1]}", feat=f, keys=[key], nontrivial=nontriv, ratio=worst))
            else:
                subs.append(result(OK, feat=f, keys=[key], nontrivial=nontriv, ratio=worst))
    # ---- the class's hand-written derivative of sum_i u_i^T A v_i -------------------------------------------
    U = _w((*opb, r, 2), "U")
    V = _w((*opb, c, 2), "V")
    if sym_all and square:
        V = U  # only the symmetric bilinear form is defined for these classes
    for subset in subsets:
        f = dict(base, entry="_bilinear_derivative", subset="+".join(s.split(":")[0] for s in subset), nsub=len(subset))
        key = f"{keyp}|bilinear|{subset}"
        env.settings_restore()
        b, ctx = R.fresh(case["term"], dtype=DT, batch=batch, seed=env.SEED, values="real", grad=set(subset))
        b2, ctx2 = R.fresh(case["term"], dtype=DT, batch=batch, seed=env.SEED, values="real", grad=set(subset))
        env.set_settings(cfgs)
        rep = call(b.op.representation)
        if isinstance(rep, Raised):
            subs.append(result(OOD, feat=f, keys=[key], msg=rep.msg))
            continue
        got = call(lambda: b.op._bilinear_derivative(U, V))
        rep2 = b2.op.representation()
        _ptrs = [t.untyped_storage().data_ptr() for t in rep2 if torch.is_tensor(t) and t.requires_grad]
        if len(set(_ptrs)) != len(_ptrs):
            subs.append(result(OOD, feat=f, keys=[key], msg="aliased representation entries (partial derivatives are not separable by autograd)"))
            continue
        need = [t for t in rep2 if torch.is_tensor(t) and t.requires_grad]
        mmv = call(b2.op._matmul, V)
        s_mm = (U * mmv).sum() if not isinstance(mmv, Raised) else torch.zeros((), dtype=DT)
        s_dn = (U * (b2.dense @ V)).sum()
        ref_mm = torch.autograd.grad(s_mm, need, allow_unused=True, retain_graph=True) if (need and s_mm.requires_grad) else tuple(None for _ in need)
        # representation tensors may be (unsqueezed) views of the leaves: differentiate the dense denotation w.r.t. the leaf
        by_ptr = {v.untyped_storage().data_ptr(): v for v in ctx2.leaves.values() if torch.is_tensor(v) and v.requires_grad}
        targets = [by_ptr.get(t.untyped_storage().data_ptr(), t) for t in need]
        # (only for views that merely add / drop singleton dimensions; e.g. a transposed view is differentiated directly)
        def _is_expand_of(tg, t):
            # t is a stride-0 expansion of the leaf tg (constructors expand broadcasting operands to the common batch shape): autograd reduces
            # the derivative w.r.t. such an argument back to the leaf's shape, so the hand-written derivative is compared after that reduction
            try:
                return tg is not t and tg.numel() < t.numel() and tuple(tg.expand(t.shape).stride()) == tuple(t.stride()) and tg.storage_offset() == t.storage_offset()
            except RuntimeError:
                return False
        expanded = [_is_expand_of(tg, t) for tg, t in zip(targets, need)]
        targets = [tg if ex or (tg.numel() == t.numel() and tuple(tg.squeeze().shape) == tuple(t.squeeze().shape) and tg.squeeze().stride() == t.squeeze().stride()) else t
                   for tg, t, ex in zip(targets, need, expanded)]
        reduce_to = {id(t): tuple(tg.shape) for tg, t, ex in zip(targets, need, expanded) if ex}
        ref_dn = torch.autograd.grad(s_dn, targets, allow_unused=True) if (need and s_dn.requires_grad) else tuple(None for _ in need)
        ref_dn = tuple(None if g_ is None else (g_ if id(t) in reduce_to else g_.reshape(t.shape)) for g_, t in zip(ref_dn, need))
        # reference: the dense denotation where the tensor is one of its leaves, else automatic differentiation of _matmul
        ref = tuple(d_ if d_ is not None else m_ for d_, m_ in zip(ref_dn, ref_mm))
        if isinstance(got, Raised):
            if is_explicit_unsupported(got, r"_bilinear_derivative"):
                subs.append(result(UNSUP, exc=got.type, msg=got.msg, feat=f, keys=[key]))
            else:
                subs.append(result(VIOL, kind="internal-error", exc=got.type, msg=f"_bilinear_derivative (requires_grad on {subset}): {got.msg} @ {got.where()}", feat=f, keys=[key]))
            continue
        got = list(got)
        if len(got) != len(rep2):
            subs.append(result(VIOL, kind="shape", msg=f"_bilinear_derivative returned {len(got)} entries for a representation of {len(rep2)}", feat=f, keys=[key]))
            continue
        bad = None
        ri = iter(ref)
        name_by_ptr = {v.untyped_storage().data_ptr(): k_ for k_, v in ctx2.leaves.items() if torch.is_tensor(v) and v.is_floating_point()}
        for idx, (t, g) in enumerate(zip(rep2, got)):
            if torch.is_tensor(t) and t.requires_grad:
                rg = next(ri)
                owner = name_by_ptr.get(t.untyped_storage().data_ptr())
                if owner is not None and owner not in subset:
                    continue  # an internal copy the library itself marked as requiring grad; not one of the chosen leaves
                if id(t) in reduce_to and g is not None:
                    g = g.sum_to_size(reduce_to[id(t)])
                    rg = torch.zeros(reduce_to[id(t)], dtype=DT) if rg is None else rg
                rg = torch.zeros_like(t) if rg is None else rg
                if g is None:
                    if rg.abs().max().item() > 1e-9:
                        bad = ("gradient", f"representation entry {idx}: derivative is None but autograd gives {rg.abs().max().item():.3g}")
                        break
                    continue
                if tuple(g.shape) != tuple(rg.shape):
                    bad = ("shape", f"representation entry {idx}: derivative shape {tuple(g.shape)} != {tuple(rg.shape)}")
                    break
                if sym_all and g.dim() >= 2 and g.shape[-1] == g.shape[-2] and any(
                        v.untyped_storage().data_ptr() == t.untyped_storage().data_ptr() and k_.endswith(":psd") for k_, v in ctx2.leaves.items() if torch.is_tensor(v)):
                    g, rg = 0.5 * (g + g.mT), 0.5 * (rg + rg.mT)
                d = (g - rg).abs().max().item()
                if d > 1e-7 * max(1.0, rg.abs().max().item()):
                    bad = ("gradient", f"representation entry {idx}: hand-written derivative differs from autograd of _matmul by {d:.3g}")
                    break
        subs.append(result(VIOL, kind=bad[0], msg=f"_bilinear_derivative (requires_grad on {subset}): {bad[1]}", feat=f, keys=[key]) if bad else result(OK, feat=f, keys=[key]))
    return result(sub=subs, trans=2 * len(subs) + 1)
